import Amshan.Props.C12
import Amshan.Props.C12Own
import Amshan.Props.C12OwnBody
import Amshan.Props.C07Witness
import Amshan.Props.C08Witness
import Amshan.Props.C08Final
import Amshan.Props.C09Witness
import Amshan.Props.C09Final
/-
  C12 — non-vacuity witnesses with the CONCRETE decoder table (`Dec.decoders`, order pinned in Props/C12) and
  the REAL messages of the test files (data of Props/C07Witness, C08Witness, C09Witness): the Aidon list 3,
  Kaifa lists 1, 2, 3 and the Swedish OBIS-tagged list, the Kamstrup hourly list, each as a frame (with its real
  LLC/APDU header) and as a bare notification body; a P1 data block; the junk payload 01 02 03 04 05 of
  tests/test_autodecoder.py.
  Realistic non-trivial fact used below (the property text mentions it): the Kamstrup grammar ACCEPTS Kaifa
  frames and bodies with a partial result, so "the most recently successful decoder whenever that one accepts
  it" is exercised with a foreign message.
-/
namespace Amshan.C12.Witness
set_option linter.defProp false
set_option maxRecDepth 100000
open Amshan.Gen Amshan.Cosem Amshan.Dec Amshan.ListSpec Amshan.Auto Amshan.DecOwnBody

def s (x : String) : List Nat := x.toList.map Char.toNat

def aidonFrame : List Nat := encHeader C07.Witness.hdr ++ encAidonBody C07.Witness.list3
def kaifaFrame1 : List Nat := encHeader C08.Witness.hdr2 ++ encKaifaValues C08.Witness.list1
def kaifaFrame3 : List Nat := encHeader C08.Witness.hdr3 ++ encKaifaValues C08.Witness.list3
def kamFrame : List Nat := encHeader C09.Witness.hdr ++ encKamList C09.Witness.real
def junk : List Nat := [1, 2, 3, 4, 5]
def p1Block : List Nat := s "0-0:1.0.0(201020085222W)\r\n1-0:1.7.0(0006.000*kW)\r\n1-0:32.7.0(234.4*V)\r\n"

/-- result dictionary / remembered index of a step -/
def dictOf (r : Except PyExc (Option Nat × Option Dict)) : Dict :=
  match r with | .ok (_, some d) => d | _ => []
def okDict (r : Except PyExc Dict) : Dict := match r with | .ok d => d | .error _ => []

def hcaught : ∀ e, caught e = true := fun e => (all_caught e).1

/-! ### Props/C12.lean (generic theorems, instantiated with the real table) -/

/-- `step_total` : hypothesis "the except clause catches everything" -/
example : (∀ e, caught e = true) ∧ ∃ r, step decoders caught (some 3) junk = .ok r :=
  ⟨hcaught, step_total decoders caught hcaught (some 3) junk⟩

/-- `none_iff_all_reject`, both directions: all seven decoders reject the junk payload, so the result is
    None (whatever is remembered) … -/
example : (∀ d ∈ decoders, accepts d junk = false) ∧ ∃ prev', step decoders caught (some 5) junk = .ok (prev', none) := by
  have h : ∀ d ∈ decoders, accepts d junk = false := by decide +kernel
  exact ⟨h, (none_iff_all_reject decoders caught hcaught (some 5) junk).2 h⟩

/-- … and a payload that gives None is rejected by each decoder, e.g. a Kaifa frame cut after 20 octets -/
example : step decoders caught none (kaifaFrame1.take 20) = .ok (none, none) ∧
    ∀ d ∈ decoders, accepts d (kaifaFrame1.take 20) = false := by
  have h : step decoders caught none (kaifaFrame1.take 20) = .ok (none, none) := by decide +kernel
  exact ⟨h, (none_iff_all_reject decoders caught hcaught none _).1 ⟨_, h⟩⟩

/-- `result_from_accepting`, `first_in_cyclic_order` : hypothesis `step … = .ok (idx, some v)`.
    Remembered: Kamstrup_notification_body (6); payload: the real Kaifa list-3 frame.  The search wraps around
    (6, 0, 1): Aidon_frame rejects, Kaifa_frame accepts. -/
example : let v := dictOf (stepPayload (some 6) kaifaFrame3)
    step decoders caught (some 6) kaifaFrame3 = .ok (some 1, some v) ∧ v.length = 19 ∧
    (∃ i d, some 1 = some i ∧ decoders[i]? = some d ∧ d kaifaFrame3 = .ok v) ∧
    (∃ j, j < decoders.length ∧ 1 = (j + (some 6).getD 0) % decoders.length ∧
      ∀ j', j' < j → ∀ d, decoders[(j' + (some 6).getD 0) % decoders.length]? = some d → accepts d kaifaFrame3 = false) := by
  intro v
  have h : step decoders caught (some 6) kaifaFrame3 = .ok (some 1, some v) := by decide +kernel
  exact ⟨h, by decide +kernel, result_from_accepting decoders caught (some 6) kaifaFrame3 (some 1) v h,
    first_in_cyclic_order decoders caught hcaught (some 6) kaifaFrame3 1 v h⟩

/-- `prefers_previous` : hypotheses `decs[i]? = some d`, `d p = .ok v`.  Remembered: Kamstrup_frame (2); payload:
    the real KAIFA list-3 frame, which the Kamstrup grammar accepts with a two-entry dictionary — so the
    Kamstrup result is returned although Kaifa_frame (1) would give all 19 fields. -/
example : let d : Decoder (List Nat) Dict := fun p => ofOut (Kamstrup.decodeFrame p)
    let v := okDict (d kaifaFrame3)
    decoders[2]? = some d ∧ d kaifaFrame3 = .ok v ∧ v.length = 2 ∧
    step decoders caught (some 2) kaifaFrame3 = .ok (some 2, some v) := by
  intro d v
  have hi : decoders[2]? = some d := by rw [DecTotal.decoders_eq]; rfl
  have hv : d kaifaFrame3 = .ok v := by decide +kernel
  exact ⟨hi, hv, by decide +kernel, prefers_previous decoders caught 2 d kaifaFrame3 v hi hv⟩

/-- `previous_unchanged_on_none` : hypothesis `step … = .ok (prev', none)` -/
example : step decoders caught (some 4) junk = .ok (some 4, none) := by
  obtain ⟨prev', h⟩ := (none_iff_all_reject decoders caught hcaught (some 4) junk).2 (by decide +kernel)
  rw [previous_unchanged_on_none decoders caught (some 4) prev' junk h] at h
  exact h

/-- `previous_names_last_success` : hypothesis `runHistory … (ps ++ [p]) = .ok (prev', rs)`.
    History: Aidon frame, junk, Kaifa frame, junk; then a Kamstrup frame. -/
example : let ps := [aidonFrame, junk, kaifaFrame1, junk]
    ∃ prev' rs, runHistory decoders caught none (ps ++ [kamFrame]) = .ok (prev', rs) ∧
      ∃ prevMid rsInit rLast, runHistory decoders caught none ps = .ok (prevMid, rsInit) ∧
        step decoders caught prevMid kamFrame = .ok (prev', rLast) ∧ rs = rsInit ++ [rLast] ∧
        (rLast = none → prev' = prevMid) ∧
        (∀ v, rLast = some v → ∃ i d, prev' = some i ∧ decoders[i]? = some d ∧ d kamFrame = .ok v) := by
  intro ps
  cases h : runHistory decoders caught none (ps ++ [kamFrame]) with
  | error e =>
    have : (match runHistory decoders caught none (ps ++ [kamFrame]) with | .ok _ => true | .error _ => false) = true := by
      decide +kernel
    rw [h] at this; cases this
  | ok x => exact ⟨x.1, x.2, rfl, previous_names_last_success decoders caught none ps kamFrame x.1 x.2 h⟩

/-- the remembered decoder along that history: Aidon_frame, unchanged, Kaifa_frame, unchanged, Kamstrup_frame -/
example : (runHistory decoders caught none [aidonFrame]).toOption.map (·.1) = some (some 0) ∧
    (runHistory decoders caught none [aidonFrame, junk]).toOption.map (·.1) = some (some 0) ∧
    (runHistory decoders caught none [aidonFrame, junk, kaifaFrame1]).toOption.map (·.1) = some (some 1) ∧
    (runHistory decoders caught none [aidonFrame, junk, kaifaFrame1, junk, kamFrame]).toOption.map (·.1) = some (some 2) ∧
    previousName decoderOrder (some 2) = some "Kamstrup_frame" := by
  decide +kernel

/-! ### Props/C12Own.lean -/

/-- `own_decoder_same_history` : hypotheses `decoders[i]? = some d`, `d p = .ok v` — Kaifa_frame remembered (a
    history of Kaifa frames), next genuine Kaifa frame: decoded by Kaifa_frame with the dictionary of C08 -/
example : let d : Decoder (List Nat) Dict := fun p => ofOut (Kaifa.decodeFrame p)
    let v := kaifaValuesExpected (some (expectedDT C08.Witness.clk3)) C08.Witness.list3
    decoders[1]? = some d ∧ d kaifaFrame3 = .ok v ∧ stepPayload (some 1) kaifaFrame3 = .ok (some 1, some v) := by
  intro d v
  have hi : decoders[1]? = some d := by rw [DecTotal.decoders_eq]; rfl
  have hv : d kaifaFrame3 = .ok v := by
    have h := C08.kaifa_values_frame_final C08.Witness.hdr3 (by decide) (by decide) C08.Witness.list3 C08.Witness.wf3 []
    rw [List.append_nil] at h
    show ofOut (Kaifa.decodeFrame kaifaFrame3) = _
    unfold kaifaFrame3
    rw [h]; rfl
  exact ⟨hi, hv, own_decoder_same_history 1 d kaifaFrame3 v hi hv⟩

/-- `own_aidon_frame_fresh` : `hd.WF`, `∀ e ∈ es, e.WF`, `es.length ≤ 255` — the real Aidon list-3 frame -/
example : stepPayload none aidonFrame = .ok (some 0, some (aidonExpected C07.Witness.list3)) :=
  own_aidon_frame_fresh C07.Witness.hdr (by decide) C07.Witness.list3 C07.Witness.wf3 (by decide)

/-- `aidon_rejects_structure_body` : `hd.WF` -/
example : ∃ e, (decoders[0]?.map (fun d => d (encHeader C08.Witness.hdr3 ++ [2] ++ [0x12, 9, 7]))) = some (.error e) :=
  aidon_rejects_structure_body C08.Witness.hdr3 (by decide) _

/-- `own_kaifa_frame_fresh` : `hd.WF`, `hd.clock ≠ .null`, `Kaifa.decodeFrame … = .dict d` — real lists 1 and 3 -/
example : stepPayload none kaifaFrame3 =
      .ok (some 1, some (kaifaValuesExpected (some (expectedDT C08.Witness.clk3)) C08.Witness.list3)) ∧
    stepPayload none kaifaFrame1 =
      .ok (some 1, some (kaifaValuesExpected (some (expectedDT C08.Witness.clkH2)) C08.Witness.list1)) := by
  constructor
  · have h := C08.kaifa_values_frame_final C08.Witness.hdr3 (by decide) (by decide) C08.Witness.list3 C08.Witness.wf3 []
    rw [List.append_nil] at h
    exact own_kaifa_frame_fresh C08.Witness.hdr3 (by decide) (by decide) C08.Witness.list3 _ h
  · have h := C08.kaifa_values_frame_final C08.Witness.hdr2 (by decide) (by decide) C08.Witness.list1 C08.Witness.wf1 []
    rw [List.append_nil] at h
    exact own_kaifa_frame_fresh C08.Witness.hdr2 (by decide) (by decide) C08.Witness.list1 _ h

/-- `own_kamstrup_frame_fresh` : `hd.WF`, `l.WF`, `2 ≤ lenOctet`, `versionPad = 0`, first OBIS code has an octet
    ≥ 0x80, `Kamstrup.decodeFrame … = .dict d` — the real hourly list (length octet 0x23, 1.1.0.0.5.255 first) -/
example : C09.Witness.real.WF ∧ 2 ≤ C09.Witness.real.lenOctet ∧ C09.Witness.real.versionPad = 0 ∧
    (∃ e rest, C09.Witness.real.elems = e :: rest ∧ ∃ b ∈ e.obis, 128 ≤ b) ∧
    stepPayload none kamFrame = .ok (some 2, some ((kamExpected C09.Witness.real).set "meter_datetime"
      (.dt (expectedDT C09.Witness.clkH)))) := by
  have hf : ∃ e rest, C09.Witness.real.elems = e :: rest ∧ ∃ b ∈ e.obis, 128 ≤ b :=
    ⟨_, _, rfl, 255, by decide, by decide⟩
  exact ⟨C09.Witness.wfReal, by decide, rfl, hf,
    own_kamstrup_frame_fresh C09.Witness.hdr (by decide) C09.Witness.real C09.Witness.wfReal (by decide) rfl hf _
      (C09.kamstrup_frame_final C09.Witness.hdr (by decide) (by decide) C09.Witness.real C09.Witness.wfReal)⟩

/-- `own_p1_fresh` : printable / CR / LF block that the P1 decoder accepts -/
example : (∀ c ∈ p1Block, (32 ≤ c ∧ c ≤ 126) ∨ c = 13 ∨ c = 10) ∧
    let d := okDict (P1Parse.decodeContent p1Block)
    P1Parse.decodeContent p1Block = .ok d ∧ d.length = 3 ∧ stepPayload none p1Block = .ok (some 3, some d) := by
  have hb : ∀ c ∈ p1Block, (32 ≤ c ∧ c ≤ 126) ∨ c = 13 ∨ c = 10 := by decide +kernel
  refine ⟨hb, ?_⟩
  intro d
  have hd : P1Parse.decodeContent p1Block = .ok d := by decide +kernel
  exact ⟨hd, by decide +kernel, own_p1_fresh p1Block hb d hd⟩

/-- `message_eq_payload_hdlc` : `f.payload = some p`, `p ≠ []` — the real HDLC frame of tests/test_hdlc.py that
    carries Kaifa list 1 (A0 27 01 02 01 10 5A 87 | E6 E7 00 0F 40000000 09 0C … 02 01 06 0000157E | EA 5E) -/
def hdlcFrame : Hdlc.Frame :=
  { data := [0xA0, 0x27, 0x01, 0x02, 0x01, 0x10, 0x5A, 0x87, 0xE6, 0xE7, 0x00, 0x0F, 0x40, 0x00, 0x00, 0x00, 0x09, 0x0C,
             0x07, 0xE4, 0x02, 0x0F, 0x06, 0x01, 0x19, 0x22, 0xFF, 0x80, 0x00, 0x00, 0x02, 0x01, 0x06, 0x00, 0x00, 0x15,
             0x7E, 0xEA, 0x5E],
    crc := fcsGood, ctlPos := some 5 }

example : let p := hdlcFrame.data.drop 8 |>.take 29
    hdlcFrame.payload = some p ∧ p ≠ [] ∧
    stepMessage none (.hdlc hdlcFrame) = stepPayload none p ∧
    (stepPayload none p).toOption.map (·.1) = some (some 1) ∧
    (dictOf (stepPayload none p)).lookup "active_power_import" = some (.int 0x157E) := by
  intro p
  have hp : hdlcFrame.payload = some p := by decide +kernel
  have hne : p ≠ [] := by decide +kernel
  exact ⟨hp, hne, message_eq_payload_hdlc none hdlcFrame p hp hne, by decide +kernel, by decide +kernel⟩

/-- `message_eq_payload_dlms` : `p ≠ []`;  `message_empty_payload` : payload None (header-only HDLC frame
    A0 08 01 02 01 10 37 8D) or empty -/
example : stepMessage (some 2) (.dlms kamFrame) = stepPayload (some 2) kamFrame :=
  message_eq_payload_dlms (some 2) kamFrame (by decide +kernel)

example : let f : Hdlc.Frame := ⟨[0xA0, 0x08, 0x01, 0x02, 0x01, 0x10, 0x37, 0x8D], fcsGood, some 5⟩
    (Message.hdlc f).payload = none ∧ stepMessage (some 1) (.hdlc f) = .ok (some 1, none) ∧
    stepMessage (some 1) (.dlms []) = .ok (some 1, none) := by
  intro f
  have h : (Message.hdlc f).payload = none := by decide +kernel
  exact ⟨h, message_empty_payload (some 1) _ (Or.inl h), message_empty_payload (some 1) _ (Or.inr rfl)⟩

/-! ### Props/C12OwnBody.lean — bare notification bodies on a fresh AutoDecoder -/

def aidonBody : List Nat := encAidonBody C07.Witness.list3
def kaifaBody3 : List Nat := encKaifaValues C08.Witness.list3
def kaifaObisBody : List Nat := encKaifaObis C08.Witness.seList
def kamBody : List Nat := encKamList C09.Witness.real

/-- `frame_decoders_reject` : `noApduStart p` — holds for all four real bodies -/
example : noApduStart aidonBody = true ∧ noApduStart kaifaBody3 = true ∧ noApduStart kaifaObisBody = true ∧
    noApduStart kamBody = true ∧
    ∀ j, j < 3 → ∀ d, decoders[j]? = some d → ∃ e, d kamBody = .error e ∧ caught e = true :=
  ⟨by decide +kernel, by decide +kernel, by decide +kernel, by decide +kernel,
   frame_decoders_reject kamBody (by decide +kernel)⟩

/-- `p1_decoder_rejects` : `p1Safe p` (an octet ≥ 0x80 …) — the real Kamstrup body has F = 255 octets;
    `p1_decoder_rejects_control` : a control octet — every COSEM body; `p1_decoder_rejects_tag` : `t = 1 ∨ t = 2` -/
example : p1Safe kamBody = true ∧ (∃ c ∈ kamBody, c < 32 ∧ c ≠ 13 ∧ c ≠ 10) ∧
    (∀ d, decoders[3]? = some d → ∃ e, d kamBody = .error e ∧ caught e = true) ∧
    (∀ d, decoders[3]? = some d → ∃ e, d (2 :: kamBody.tail) = .error e ∧ caught e = true) :=
  ⟨by decide +kernel, ⟨2, by decide +kernel, by decide⟩, p1_decoder_rejects kamBody (by decide +kernel),
   p1_decoder_rejects_tag 2 kamBody.tail (Or.inr rfl)⟩
example : ∀ d, decoders[3]? = some d → ∃ e, d aidonBody = .error e ∧ caught e = true :=
  p1_decoder_rejects_control aidonBody ⟨1, by decide +kernel, by decide⟩

/-- `fresh_k` (and `fresh_k_generic`) : decoder k accepts, decoders 0 … k−1 raise caught exceptions — k = 6 for
    the real Kamstrup body -/
example : let d : Decoder (List Nat) Dict := fun p => ofOut (Kamstrup.decodeBody p)
    decoders[6]? = some d ∧ d kamBody = .ok (kamExpected C09.Witness.real) ∧
    (∀ j, j < 6 → ∀ d', decoders[j]? = some d' → ∃ e, d' kamBody = .error e ∧ caught e = true) ∧
    stepPayload none kamBody = .ok (some 6, some (kamExpected C09.Witness.real)) := by
  intro d
  have hk : decoders[6]? = some d := by rw [DecTotal.decoders_eq]; rfl
  have hv : d kamBody = .ok (kamExpected C09.Witness.real) := by
    show ofOut (Kamstrup.decodeBody kamBody) = _
    unfold kamBody
    rw [C09.kamstrup_body_final C09.Witness.real C09.Witness.wfReal]; rfl
  have hrej : ∀ j, j < 6 → ∀ d', decoders[j]? = some d' → ∃ e, d' kamBody = .error e ∧ caught e = true := by
    intro j hj d' hd'
    have hlt : j < decoders.length := (List.getElem?_eq_some_iff.1 hd').1
    have hd'' : d' = decoders[j] := (List.getElem?_eq_some_iff.1 hd').2.symm
    subst hd''
    have hall : ∀ j (h : j < decoders.length), j < 6 →
        (match decoders[j] kamBody with | .error e => caught e | .ok _ => false) = true := by decide +kernel
    have := hall j hlt hj
    cases hr : decoders[j] kamBody with
    | ok _ => rw [hr] at this; cases this
    | error e => rw [hr] at this; exact ⟨e, rfl, this⟩
  exact ⟨hk, hv, hrej, fresh_k kamBody 6 d _ hk hv hrej⟩

example : Auto.step decoders caught none kaifaBody3 = .ok (some 5, some (kaifaValuesExpected none C08.Witness.list3)) := by
  have h : stepPayload none kaifaBody3 = .ok (some 5, some (kaifaValuesExpected none C08.Witness.list3)) :=
    own_kaifa_body_fresh_wf C08.scaledCorrect C08.Witness.list3 C08.Witness.wf3
  exact h

/-- `own_aidon_payload_fresh`, `own_aidon_body_fresh` : `noApduStart`, decoder 4 accepts / list well formed -/
example : stepPayload none aidonBody = .ok (some 4, some (aidonExpected C07.Witness.list3)) ∧
    Aidon.decodeBody aidonBody = .dict (aidonExpected C07.Witness.list3) := by
  have hdec : Aidon.decodeBody aidonBody = .dict (aidonExpected C07.Witness.list3) := by
    have := C07.aidon_roundtrip_body C07.Witness.list3 C07.Witness.wf3 (by decide) []
    rwa [List.append_nil] at this
  exact ⟨own_aidon_body_fresh C07.Witness.list3 C07.Witness.wf3 (by decide) (by decide +kernel), hdec⟩
example : stepPayload none aidonBody = .ok (some 4, some (aidonExpected C07.Witness.list3)) := by
  refine own_aidon_payload_fresh aidonBody (by decide +kernel) _ ?_
  have := C07.aidon_roundtrip_body C07.Witness.list3 C07.Witness.wf3 (by decide) []
  rwa [List.append_nil] at this

/-- `own_aidon_body_fresh_obis` : first OBIS code 1.1.0.2.129.255 of the real list: F ≥ 128, C = 0 with E ≠ 0 -/
example : stepPayload none aidonBody = .ok (some 4, some (aidonExpected C07.Witness.list3)) :=
  own_aidon_body_fresh_obis _ _ C07.Witness.wf3 (by decide) 1 1 0 2 129 255 rfl (by decide) (by decide) (by decide)

/-- `own_kaifa_payload_fresh`, `own_kaifa_body_fresh`, `own_kaifa_body_fresh_wf`, `own_kaifa_list1_fresh` -/
example : stepPayload none kaifaBody3 = .ok (some 5, some (kaifaValuesExpected none C08.Witness.list3)) ∧
    stepPayload none (encKaifaValues [.u32 0x16DC]) = .ok (some 5, some (kaifaValuesExpected none [.u32 0x16DC])) :=
  ⟨own_kaifa_body_fresh_wf C08.scaledCorrect _ C08.Witness.wf3,
   own_kaifa_list1_fresh C08.scaledCorrect 0x16DC (by decide)⟩
example : stepPayload none kaifaBody3 = .ok (some 5, some (kaifaValuesExpected none C08.Witness.list3)) := by
  have hdec := C08.kaifa_values_body_final C08.Witness.list3 C08.Witness.wf3 []
  rw [List.append_nil] at hdec
  exact own_kaifa_body_fresh C08.Witness.list3 (by decide +kernel) _ hdec
example : ∃ rest, kaifaBody3 = 2 :: rest ∧
    stepPayload none (2 :: rest) = .ok (some 5, some (kaifaValuesExpected none C08.Witness.list3)) := by
  have hdec := C08.kaifa_values_body_final C08.Witness.list3 C08.Witness.wf3 []
  rw [List.append_nil] at hdec
  exact ⟨kaifaBody3.tail, by decide +kernel, own_kaifa_payload_fresh kaifaBody3.tail (by decide +kernel) _ hdec⟩

/-- `own_kaifa_obis_body_fresh(_wf)` : the real Swedish list -/
example : stepPayload none kaifaObisBody = .ok (some 5, some (kaifaObisExpected C08.Witness.seList)) :=
  own_kaifa_obis_body_fresh_wf C08.scaledCorrect _ C08.Witness.hSE C08.Witness.hsSE (by decide) (by decide +kernel)
example : stepPayload none kaifaObisBody = .ok (some 5, some (kaifaObisExpected C08.Witness.seList)) :=
  own_kaifa_obis_body_fresh _ (by decide +kernel) _
    (C08.kaifa_obis_body_final _ C08.Witness.hSE C08.Witness.hsSE (by decide))

/-- `own_kamstrup_body_fresh`, `_wf`, `_version` : the real hourly list -/
example : stepPayload none kamBody = .ok (some 6, some (kamExpected C09.Witness.real)) ∧
    5 ≤ C09.Witness.real.version.length := by
  have hf : ∃ e rest, C09.Witness.real.elems = e :: rest ∧ ∃ b ∈ e.obis, 128 ≤ b :=
    ⟨_, _, rfl, 255, by decide, by decide⟩
  exact ⟨own_kamstrup_body_fresh_version C09.scaledCorrect _ C09.Witness.wfReal (by decide) hf (by decide +kernel),
    by decide +kernel⟩
example : stepPayload none kamBody = .ok (some 6, some (kamExpected C09.Witness.real)) := by
  have hf : ∃ e rest, C09.Witness.real.elems = e :: rest ∧ ∃ b ∈ e.obis, 128 ≤ b :=
    ⟨_, _, rfl, 255, by decide, by decide⟩
  exact own_kamstrup_body_fresh_wf C09.scaledCorrect _ C09.Witness.wfReal (by decide) hf (by decide +kernel)
example : stepPayload none kamBody = .ok (some 6, some (kamExpected C09.Witness.real)) := by
  have hf : ∃ e rest, C09.Witness.real.elems = e :: rest ∧ ∃ b ∈ e.obis, 128 ≤ b :=
    ⟨_, _, rfl, 255, by decide, by decide⟩
  exact own_kamstrup_body_fresh _ C09.Witness.wfReal (by decide) hf (by decide +kernel) _
    (C09.kamstrup_body_final _ C09.Witness.wfReal)

end Amshan.C12.Witness
