import Amshan.Lemmas.Obis
/-
  C20 — OBIS codes parse into their value groups and format back losslessly.
-/
namespace Amshan.C20
open Amshan.Gen Amshan.Obis Amshan.ObisSpec

/-- pins: the deterministic matcher was written for exactly these pattern texts -/
theorem pattern_pins :
    obisStandardPatternSrc = "(?P<AS>\\d{0,3})\\.(?P<BS>\\d{0,3})\\.(?P<CS>\\d{0,3})\\.(?P<DS>\\d{0,3})\\.(?P<ES>\\d{0,3})\\.(?P<FS>\\d{0,3})?" ∧
    obisReducedPatternSrc = "((?P<AR>\\d{0,3}){1}-)?((?P<BR>\\d{0,3}){1}:)?((?P<CR>\\d{0,3})\\.)(?P<DR>\\d{0,3})?(\\.(?P<ER>\\d{0,3}))?(\\*(?P<FR>\\d{0,3}))?" ∧
    obisBothPatternSrc = "(?P<STANDARD>" ++ obisStandardPatternSrc ++ ")|(?P<REDUCED>" ++ obisReducedPatternSrc ++ ")" ∧
    obisCompiledPatternSrc = obisBothPatternSrc := by
  decide +kernel

/-- **C20 (reduced form).** Every code written `[A-][B:]C.D[.E][*F]` with groups 0..255, any of the
    16 presence patterns, followed by anything that does not continue the code, parses into exactly
    those groups — except that an optional group written as 0 … is still `some 0`. -/
theorem parse_reduced (a b : Option Nat) (c d : Nat) (e f : Option Nat)
    (ha : optLe a 255) (hb : optLe b 255) (hc : c ≤ 255) (hd : d ≤ 255) (he : optLe e 255)
    (hf : optLe f 255) :
    parse (reduced a b c d e f) = .ok (a, b, c, d, e, f) := by
  exact parse_redText_dec a b c d e f ha hb hc hd he hf

/-- **C20 (six-part dotted form).** -/
theorem parse_standard (a b c d e f : Nat) (ha : a ≤ 255) (hb : b ≤ 255) (hc : c ≤ 255)
    (hd : d ≤ 255) (he : e ≤ 255) (hf : f ≤ 255) :
    parse (standard a b c d e f) = .ok (some a, some b, c, d, some e, some f) := by
  exact parse_stdText_dec a b c d e f ha hb hc hd he hf

/-- **C20.** Strings that contain no digit-dot-digit sequence at all raise ValueError. -/
theorem no_ddd_raises (s : List Nat) (h : hasDigitDotDigit s = false) :
    parse s = .error .valueError := by
  cases hp : parse s with
  | error e => rw [onlyVE_parse s e hp]
  | ok g =>
    have := parse_ok_hasDDD hp
    rw [h] at this
    cases this

/-- parsing raises nothing but ValueError -/
theorem parse_error_is_valueError (s : List Nat) (e : PyExc) (h : parse s = .error e) :
    e = .valueError := by
  exact onlyVE_parse s e h

/-- **C20.** Two Obis objects are equal exactly when their groups are equal; equal objects hash
    equally; comparison with a string parses the string first (and is False when it does not parse). -/
theorem eq_iff (g h : Groups) : eqObis g h = true ↔ g = h := by
  simp [eqObis]

theorem hash_congr (g h : Groups) (e : eqObis g h = true) : hashKey g = hashKey h := by
  have := (eq_iff g h).1 e
  rw [this]

theorem eq_string_parses_first (g : Groups) (s : List Nat) :
    eqStr g s = true ↔ parse s = .ok g := by
  unfold eqStr
  cases hp : parse s with
  | error e => simp
  | ok h =>
    simp only [decide_eq_true_eq, Except.ok.injEq]
    exact eq_comm

/-- **C20.** The C.D.E string is made of groups C, D and E. -/
theorem cde_exact (a b : Option Nat) (c d e : Nat) (f : Option Nat)
    (hc : c ≤ 255) (hd : d ≤ 255) (he : e ≤ 255) :
    cdeStr (a, b, c, d, some e, f) = dec c ++ [46] ++ dec d ++ [46] ++ dec e := by
  simp only [cdeStr, showOpt, showNat_eq_dec c (by omega), showNat_eq_dec d (by omega),
    showNat_eq_dec e (by omega)]

/-- `None` or non-zero -/
def absentOrNonZero (x : Option Nat) : Prop := match x with | some v => v ≠ 0 | none => True

theorem showNat_eq_dec' (n : Nat) (h : n ≤ 255) : showNat n = dec n :=
  showNat_eq_dec n (by omega)

/-- under the round-trip side conditions the reduced formatter writes exactly the spec text -/
theorem toReducedStr_eq (a b : Option Nat) (c d : Nat) (e f : Option Nat)
    (ha : optLe a 255 ∧ absentOrNonZero a) (hb : optLe b 255 ∧ absentOrNonZero b)
    (hc : c ≤ 255) (hd : d ≤ 255)
    (he : optLe e 255 ∧ absentOrNonZero e) (hf : optLe f 255 ∧ absentOrNonZero f) :
    toReducedStr (a, b, c, d, e, f) = reduced a b c d e f := by
  obtain ⟨ha1, ha2⟩ := ha
  obtain ⟨hb1, hb2⟩ := hb
  obtain ⟨he1, he2⟩ := he
  obtain ⟨hf1, hf2⟩ := hf
  cases a <;> cases b <;> cases e <;> cases f <;>
    simp only [optLe, absentOrNonZero] at ha1 ha2 hb1 hb2 he1 he2 hf1 hf2 <;>
    simp [toReducedStr, reduced, truthy, showOpt, showNat_eq_dec', *]

/-- **C20 (round trip).** Formatting in reduced form and parsing the result gives back the same
    groups whenever the optional groups are absent or non-zero. -/
theorem roundtrip (a b : Option Nat) (c d : Nat) (e f : Option Nat)
    (ha : optLe a 255 ∧ absentOrNonZero a) (hb : optLe b 255 ∧ absentOrNonZero b)
    (hc : c ≤ 255) (hd : d ≤ 255)
    (he : optLe e 255 ∧ absentOrNonZero e) (hf : optLe f 255 ∧ absentOrNonZero f) :
    parse (toReducedStr (a, b, c, d, e, f)) = .ok (a, b, c, d, e, f) := by
  rw [toReducedStr_eq a b c d e f ha hb hc hd he hf]
  exact parse_reduced a b c d e f ha.1 hb.1 hc hd he.1 hf.1

/-- and `str(obis)` parses back too (six-part form when all groups are non-zero) -/
theorem roundtrip_str (a b : Option Nat) (c d : Nat) (e f : Option Nat)
    (ha : optLe a 255 ∧ absentOrNonZero a) (hb : optLe b 255 ∧ absentOrNonZero b)
    (hc : c ≤ 255) (hd : d ≤ 255)
    (he : optLe e 255 ∧ absentOrNonZero e) (hf : optLe f 255 ∧ absentOrNonZero f) :
    parse (toStr (a, b, c, d, e, f)) = .ok (a, b, c, d, e, f) := by
  unfold toStr
  simp only
  split
  · rename_i hall
    simp only [Bool.and_eq_true, bne_iff_ne, ne_eq] at hall
    obtain ⟨⟨⟨⟨⟨hta, htb⟩, _⟩, _⟩, hte⟩, htf⟩ := hall
    cases a with
    | none => simp [truthy] at hta
    | some a =>
    cases b with
    | none => simp [truthy] at htb
    | some b =>
    cases e with
    | none => simp [truthy] at hte
    | some e =>
    cases f with
    | none => simp [truthy] at htf
    | some f =>
    have ha' : a ≤ 255 := ha.1
    have hb' : b ≤ 255 := hb.1
    have he' : e ≤ 255 := he.1
    have hf' : f ≤ 255 := hf.1
    have := parse_standard a b c d e f ha' hb' hc hd he' hf'
    simp only [standard] at this
    simp only [showOpt, showNat_eq_dec', *]
  · exact roundtrip a b c d e f ha hb hc hd he hf

/-- non-vacuity -/
example : parse (reduced (some 1) (some 0) 1 8 none (some 255)) = .ok (some 1, some 0, 1, 8, none, some 255) := by
  rfl

end Amshan.C20
