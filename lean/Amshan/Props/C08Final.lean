import Amshan.Props.C08
import Amshan.Props.C11Float
/-
  C08 with the floating-point hypothesis discharged: `round(v·10^-s, s)` is the correctly rounded
  quotient (Props/C11Float.lean `scaled_correct`, proved about the exact binary64 model).
-/
namespace Amshan.C08
open Amshan.Cosem Amshan.ListSpec

theorem scaledCorrect : ScaledCorrect := fun v s hv hs => Amshan.C11.scaled_correct v s hv hs

/-- **C08 (positional lists, bare body)** — currents = register/1000, voltages = register/10 as the
    correctly rounded doubles, powers and energies = the register, text verbatim, manufacturer 'Kaifa' -/
theorem kaifa_values_body_final (vs : List KVal) (h : KaifaValuesWF vs) (trail : List Nat) :
    Kaifa.decodeBody (encKaifaValues vs ++ trail) = .dict (kaifaValuesExpected none vs) :=
  kaifa_values_body scaledCorrect vs h trail

theorem kaifa_values_frame_final (hd : Header) (hh : hd.WF) (hc : hd.clock ≠ .null)
    (vs : List KVal) (h : KaifaValuesWF vs) (trail : List Nat) :
    Kaifa.decodeFrame (encHeader hd ++ encKaifaValues vs ++ trail) =
      .dict (kaifaValuesExpected (some (match hd.clock with
        | .tagged d => expectedDT d | .untagged d => expectedDT d | .null => default)) vs) :=
  kaifa_values_frame scaledCorrect hd hh hc vs h trail

theorem kaifa_obis_body_final (es : List (List Nat × KVal))
    (h : ∀ p ∈ es, Obis6 p.1 ∧ p.2.WF) (hs : ScaledAreRegisters es) (hl : es.length ≤ 127) :
    Kaifa.decodeBody (encKaifaObis es) = .dict (kaifaObisExpected es) :=
  kaifa_obis_body scaledCorrect es h hs hl

theorem kaifa_obis_frame_final (hd : Header) (hh : hd.WF) (es : List (List Nat × KVal))
    (h : ∀ p ∈ es, Obis6 p.1 ∧ p.2.WF) (hs : ScaledAreRegisters es) (hl : es.length ≤ 127) :
    Kaifa.decodeFrame (encHeader hd ++ encKaifaObis es) = .dict (kaifaObisExpected es) :=
  kaifa_obis_frame scaledCorrect hd hh es h hs hl

end Amshan.C08
