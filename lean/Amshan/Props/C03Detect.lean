import Amshan.Props.C03
/-
  C03 / C01 — what the "good FCS" test buys: the register update is a bijection of the 16-bit
  register for every octet and injective in the octet for every register, hence

    * two messages that differ in exactly one octet never reach the same register, so
    * a message obtained from a good one by damaging exactly ONE octet (anywhere: header, payload or
      the check sequence itself) is never reported good — for every length and every position.

  This is the universal form of "no damaged frame is ever labelled valid" for single-octet damage; it is
  a theorem about the model of `FastFrameCheckSequence16._next` (tied to the source by `C03Gen.gen_next`,
  the translated function, and by the regenerated table).
-/
namespace Amshan.C03
open Amshan.Gen Amshan.Rfc1662 Amshan.FcsLemmas

theorem xor_cancel_right {a b c : Nat} (h : a ^^^ c = b ^^^ c) : a = b := by
  have := congrArg (· ^^^ c) h
  simpa [Nat.xor_assoc, Nat.xor_self, Nat.xor_zero] using this

theorem xor_cancel_left {a b c : Nat} (h : c ^^^ a = c ^^^ b) : a = b := by
  rw [Nat.xor_comm c a, Nat.xor_comm c b] at h
  exact xor_cancel_right h

/-- for a fixed octet the step is injective in the register (so it permutes the 65 536 registers) -/
theorem next_inj_register (r r' b : Nat) (hr : r < 65536) (hr' : r' < 65536) (hb : b < 256)
    (h : Fcs.next r b = Fcs.next r' b) : r = r' := by
  rw [next_eq_iter r b hr hb, next_eq_iter r' b hr' hb] at h
  have hb16 : b < 2 ^ 16 := by omega
  have h1 : r ^^^ b < 65536 := Nat.xor_lt_two_pow (n := 16) hr hb16
  have h2 : r' ^^^ b < 65536 := Nat.xor_lt_two_pow (n := 16) hr' hb16
  exact xor_cancel_right (iter_inj 8 _ _ h1 h2 h)

/-- for a fixed register the step is injective in the octet -/
theorem next_inj_octet (r b b' : Nat) (hr : r < 65536) (hb : b < 256) (hb' : b' < 256)
    (h : Fcs.next r b = Fcs.next r b') : b = b' := by
  rw [next_eq_iter r b hr hb, next_eq_iter r b' hr hb'] at h
  have h1 : r ^^^ b < 65536 := Nat.xor_lt_two_pow (n := 16) hr (by omega)
  have h2 : r ^^^ b' < 65536 := Nat.xor_lt_two_pow (n := 16) hr (by omega)
  exact xor_cancel_left (iter_inj 8 _ _ h1 h2 h)

/-- feeding the same octets keeps different registers different -/
theorem feed_inj_register (bs : List Nat) (r r' : Nat) (hr : r < 65536) (hr' : r' < 65536)
    (h : Octets bs) (e : Fcs.feed r bs = Fcs.feed r' bs) : r = r' := by
  induction bs generalizing r r' with
  | nil => exact e
  | cons b bs ih =>
    have hb : b < 256 := h b (by simp)
    have hbs : Octets bs := fun x hx => h x (by simp [hx])
    simp only [Fcs.feed, List.foldl_cons] at e
    have := ih (Fcs.next r b) (Fcs.next r' b) (next_lt r b hr hb) (next_lt r' b hr' hb) hbs e
    exact next_inj_register r r' b hr hr' hb this

/-- **Single-octet sensitivity.** Two messages that differ in exactly one octet (same prefix `p`,
    same suffix `s`, any lengths) leave different registers. -/
theorem one_octet_changes_register (p s : List Nat) (x y : Nat) (hp : Octets p) (hs : Octets s)
    (hx : x < 256) (hy : y < 256) (hne : x ≠ y) :
    Fcs.feed fcsInit (p ++ x :: s) ≠ Fcs.feed fcsInit (p ++ y :: s) := by
  intro e
  rw [feed_append, feed_append] at e
  have hr : Fcs.feed fcsInit p < 65536 := feed_lt _ _ (by decide) hp
  simp only [Fcs.feed, List.foldl_cons] at e
  have e' := feed_inj_register s _ _ (next_lt _ x (feed_lt _ _ (by decide) hp) hx)
    (next_lt _ y (feed_lt _ _ (by decide) hp) hy) hs e
  exact hne (next_inj_octet _ x y hr hx hy e')

/-- **C03/C01 (single-octet damage is always detected).** If a message is good, every message that
    differs from it in exactly one octet is not good. -/
theorem one_octet_damage_detected (p s : List Nat) (x y : Nat) (hp : Octets p) (hs : Octets s)
    (hx : x < 256) (hy : y < 256) (hne : x ≠ y)
    (good : Fcs.isGood (Fcs.feed fcsInit (p ++ x :: s)) = true) :
    Fcs.isGood (Fcs.feed fcsInit (p ++ y :: s)) = false := by
  unfold Fcs.isGood at *
  have h1 : fcsGood = Fcs.feed fcsInit (p ++ x :: s) := by simpa using good
  have hne' := one_octet_changes_register p s x y hp hs hx hy hne
  cases hb : (fcsGood == Fcs.feed fcsInit (p ++ y :: s)) with
  | false => rfl
  | true =>
    have h2 : fcsGood = Fcs.feed fcsInit (p ++ y :: s) := by simpa using hb
    exact absurd (h1.symm.trans h2) hne'

/-- the same for a message sealed with its own FCS: damage one octet of the body and the trailer no
    longer matches -/
theorem sealed_one_octet_damage_detected (p s : List Nat) (x y : Nat) (hp : Octets p) (hs : Octets s)
    (hx : x < 256) (hy : y < 256) (hne : x ≠ y) :
    Fcs.isGood (Fcs.feed fcsInit ((p ++ y :: s) ++
      [fcs16 (p ++ x :: s) % 256, fcs16 (p ++ x :: s) / 256])) = false := by
  have hm : Octets (p ++ x :: s) := by
    intro b hb
    simp only [List.mem_append, List.mem_cons] at hb
    rcases hb with hb | hb | hb
    · exact hp b hb
    · exact hb ▸ hx
    · exact hs b hb
  have hfl : fcs16 (p ++ x :: s) < 65536 := by
    unfold fcs16
    rw [← update_eq _ hm]
    exact Nat.xor_lt_two_pow (n := 16) (feed_lt _ _ (by decide) hm) (by decide)
  have h0 : fcs16 (p ++ x :: s) % 256 < 256 := Nat.mod_lt _ (by decide)
  have h1 : fcs16 (p ++ x :: s) / 256 < 256 := by omega
  have good := (residue (p ++ x :: s) _ _ hm h0 h1).2 ⟨rfl, rfl⟩
  have hs' : Octets (s ++ [fcs16 (p ++ x :: s) % 256, fcs16 (p ++ x :: s) / 256]) := by
    intro b hb
    simp only [List.mem_append, List.mem_cons, List.not_mem_nil, or_false] at hb
    rcases hb with hb | hb | hb
    · exact hs b hb
    · exact hb ▸ h0
    · exact hb ▸ h1
  have := one_octet_damage_detected p (s ++ [fcs16 (p ++ x :: s) % 256, fcs16 (p ++ x :: s) / 256])
    x y hp hs' hx hy hne (by simpa [List.append_assoc] using good)
  simpa [List.append_assoc] using this

/-- two consecutive steps are injective in the pair of octets (a 16-bit burst never cancels) -/
theorem two_steps_inj (r x1 x2 y1 y2 : Nat) (hr : r < 65536) (hx1 : x1 < 256) (hx2 : x2 < 256)
    (hy1 : y1 < 256) (hy2 : y2 < 256)
    (h : Fcs.next (Fcs.next r x1) x2 = Fcs.next (Fcs.next r y1) y2) : x1 = y1 ∧ x2 = y2 := by
  rw [two_steps r x1 x2 hr hx1 hx2, two_steps r y1 y2 hr hy1 hy2] at h
  have tx := trailer_lt x1 x2 hx1 hx2
  have ty := trailer_lt y1 y2 hy1 hy2
  have h1 : r ^^^ (x1 ^^^ x2 * 256) < 65536 := Nat.xor_lt_two_pow (n := 16) hr tx
  have h2 : r ^^^ (y1 ^^^ y2 * 256) < 65536 := Nat.xor_lt_two_pow (n := 16) hr ty
  have e := xor_cancel_left (iter_inj 16 _ _ h1 h2 h)
  rw [trailer_eq_add x1 x2 hx1, trailer_eq_add y1 y2 hy1] at e
  omega

/-- **Two adjacent octets.** Damage confined to two neighbouring octets (a burst of at most 16 bits) of a
    good message is always detected — any length, any position. -/
theorem two_adjacent_octets_damage_detected (p s : List Nat) (x1 x2 y1 y2 : Nat) (hp : Octets p)
    (hs : Octets s) (hx1 : x1 < 256) (hx2 : x2 < 256) (hy1 : y1 < 256) (hy2 : y2 < 256)
    (hne : ¬ (x1 = y1 ∧ x2 = y2))
    (good : Fcs.isGood (Fcs.feed fcsInit (p ++ x1 :: x2 :: s)) = true) :
    Fcs.isGood (Fcs.feed fcsInit (p ++ y1 :: y2 :: s)) = false := by
  unfold Fcs.isGood at *
  have g1 : fcsGood = Fcs.feed fcsInit (p ++ x1 :: x2 :: s) := by simpa using good
  cases hb : (fcsGood == Fcs.feed fcsInit (p ++ y1 :: y2 :: s)) with
  | false => rfl
  | true =>
    have g2 : fcsGood = Fcs.feed fcsInit (p ++ y1 :: y2 :: s) := by simpa using hb
    have e := g1.symm.trans g2
    rw [feed_append, feed_append] at e
    simp only [Fcs.feed, List.foldl_cons] at e
    have hr : Fcs.feed fcsInit p < 65536 := feed_lt _ _ (by decide) hp
    have hr' : List.foldl Fcs.next fcsInit p < 65536 := hr
    have e' := feed_inj_register s _ _
      (next_lt _ x2 (next_lt _ x1 hr' hx1) hx2) (next_lt _ y2 (next_lt _ y1 hr' hy1) hy2) hs e
    exact absurd (two_steps_inj _ x1 x2 y1 y2 hr' hx1 hx2 hy1 hy2 e') hne


/-- non-vacuity: a good message and a damaged copy -/
example : Fcs.isGood (Fcs.feed fcsInit ([1, 2, 3] ++ [fcs16 [1, 2, 3] % 256, fcs16 [1, 2, 3] / 256])) = true ∧
    Fcs.isGood (Fcs.feed fcsInit ([1, 7, 3] ++ [fcs16 [1, 2, 3] % 256, fcs16 [1, 2, 3] / 256])) = false := by
  decide +kernel

/-- non-vacuity of the two-octet form: the theorem applied to a concrete good message -/
example : Fcs.isGood (Fcs.feed fcsInit ([1] ++ 9 :: 7 :: [fcs16 [1, 2, 3] % 256, fcs16 [1, 2, 3] / 256])) = false :=
  two_adjacent_octets_damage_detected [1] [fcs16 [1, 2, 3] % 256, fcs16 [1, 2, 3] / 256] 2 3 9 7
    (by decide) (by decide +kernel) (by decide) (by decide) (by decide) (by decide) (by decide)
    (by decide +kernel)

end Amshan.C03
