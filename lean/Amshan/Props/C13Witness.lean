import Amshan.Props.C13
import Amshan.Props.C13Clean
import Amshan.Props.C02Witness
import Amshan.Props.C05Witness
/-
  C13 — non-vacuity witnesses with the two CONCRETE candidate readers (`hdlcRd cfg`, `p1Rd`) on the clean
  streams of Props/C02Witness (noise + three REAL HDLC frames of tests/test_hdlc.py, one of them header-only)
  and Props/C05Witness (tail of a readout + four readouts).
-/
namespace Amshan.C13.Witness
set_option linter.defProp false
set_option maxRecDepth 100000
open Amshan.Gen Amshan.Proto Amshan.ProtoSpec Amshan.Hdlc Amshan.HdlcSpec Amshan.P1Spec

/-! ### helper: the P1 reader returns nothing (and stays new) on chunks without a start character '/' -/

def dropWhile_notStart (l : List Nat) (h : 47 ∉ l) : l.dropWhile P1.notStart = [] := by
  induction l with
  | nil => rfl
  | cons a t ih =>
    have ha : a ≠ 47 := fun e => h (by simp [e])
    have ht : 47 ∉ t := fun m => h (by simp [m])
    have : P1.notStart a = true := by
      simp only [P1.notStart, bne_iff_ne, ne_eq]
      exact ha
    rw [List.dropWhile_cons, if_pos this]
    exact ih ht

def p1_read_quiet (chunk : List Nat) (h : 47 ∉ chunk) : P1.read P1.Reader.init chunk = .ok (P1.Reader.init, []) := by
  have hd := dropWhile_notStart chunk h
  have hg : ¬ (0 > p1Guard) := by decide
  unfold P1.read
  simp only [P1.Reader.init, P1.Buf.empty, P1.Buf.trimToPos, P1.Buf.extend, P1.Buf.trimToFlagOrEnd,
    List.length_nil, Nat.add_zero, hg, decide_false, Bool.false_eq_true, if_false, if_true, List.nil_append, hd]
  rw [P1.loop]
  simp [P1.Buf.pop]

def p1_readAll_quiet (chunks : List (List Nat)) (h : 47 ∉ chunks.flatten) :
    P1.readAll P1.Reader.init chunks = .ok (P1.Reader.init, chunks.map fun _ => []) := by
  induction chunks with
  | nil => rfl
  | cons ch chs ih =>
    have h1 : 47 ∉ ch := fun m => h (by simp [m])
    have h2 : 47 ∉ chs.flatten := fun m => h (by simp [m])
    simp only [P1.readAll, p1_read_quiet ch h1, ih h2, List.map_cons]

def p1_quiet (chunks : List (List Nat)) (h : 47 ∉ chunks.flatten) : Quiet p1Rd chunks := by
  intro m hm
  rw [p1Rd_feedAll_flatten _ chunks _ (p1_readAll_quiet chunks h)] at hm
  have : (chunks.map fun _ => ([] : List P1.Readout)).flatten = [] := by
    induction chunks with
    | nil => rfl
    | cons _ t ih => simpa using ih (fun m => h (by simp [m]))
  rw [this] at hm
  cases hm

/-! ### `clean_hdlc`, `clean_hdlc_two_candidates` : the hypotheses of C02 plus `Quiet p1Rd chunks` -/

open C02.Witness in
/-- the HDLC wire (every configuration) contains no '/' -/
def noSlash (cfg : Cfg) : 47 ∉ (split (wire cfg.stuffing noise frames 2)).flatten := by
  rw [split_flatten]
  obtain ⟨st, ab⟩ := cfg
  cases st <;> cases ab <;> decide +kernel

open C02.Witness in
/-- all hypotheses hold; the queue receives the non-empty payloads of the two frames that have one (the
    header-only frame contributes nothing), for the single candidate and for both candidate orders -/
example (cfg : Cfg) :
    let chunks := split (wire cfg.stuffing noise frames 2)
    Quiet p1Rd chunks ∧
    (runAll Kind.payload (State.init [hdlcRd cfg]) chunks).2 = [Item.payload fKaifa.info, Item.payload fAidon.info] ∧
    (runAll Kind.payload (State.init [hdlcRd cfg, p1Rd]) chunks).2 = [Item.payload fKaifa.info, Item.payload fAidon.info] ∧
    (runAll Kind.payload (State.init [p1Rd, hdlcRd cfg]) chunks).2 = [Item.payload fKaifa.info, Item.payload fAidon.info] := by
  intro chunks
  have hq : Quiet p1Rd chunks := p1_quiet chunks (noSlash cfg)
  have h1 := clean_hdlc cfg noise frames 2 chunks hnoise (hframes cfg) (by decide) (split_flatten _)
  have h2 := clean_hdlc_two_candidates cfg noise frames 2 chunks hnoise (hframes cfg) (by decide) (split_flatten _) hq
  have he : (frames.filterMap fun p => if p.1.info.isEmpty then none else some (Item.payload p.1.info)) =
      [Item.payload fKaifa.info, Item.payload fAidon.info] := by decide
  rw [he] at h1 h2
  exact ⟨hq, h1, h2.1, h2.2⟩

/-! ### `quiet_candidate_irrelevant` : `Quiet q chunks` — same instance, message protocol -/

open C02.Witness in
example : let chunks := split (wire true noise frames 2)
    (runAll Kind.message (State.init [p1Rd, hdlcRd ⟨true, true⟩]) chunks).2 =
      (runAll Kind.message (State.init [hdlcRd ⟨true, true⟩]) chunks).2 :=
  (quiet_candidate_irrelevant Kind.message (hdlcRd ⟨true, true⟩) p1Rd _ (p1_quiet _ (noSlash ⟨true, true⟩))).2

/-! ### `single_candidate` : every message the reader reports is valid — the HDLC candidate on the clean stream -/

open C02.Witness in
example : let chunks := split (wire false noise frames 2)
    let r := hdlcRd ⟨false, true⟩
    (∀ m ∈ (r.feedAll chunks).flatten, m.valid = true) ∧
    (runAll Kind.payload (State.init [r]) chunks).2 =
      (((r.feedAll chunks).flatten).filterMap goodPayload).map Item.payload := by
  intro chunks r
  have hs : (r.feedAll chunks).flatten =
      [expectedFrame fKaifa, expectedFrame fAidon, expectedFrame fEmpty].map frameMsg := by
    rw [hdlcRd_feedAll ⟨false, true⟩ chunks,
      C02.clean_stream_delivered ⟨false, true⟩ noise frames 2 chunks hnoise (hframes ⟨false, true⟩) (by decide)
        (split_flatten _)]
    rfl
  have hv : ∀ m ∈ (r.feedAll chunks).flatten, m.valid = true := by
    rw [hs]; decide +kernel
  exact ⟨hv, single_candidate r chunks hv⟩

/-! ### `clean_p1` : the hypotheses of C05;  `hdlc_quiet_without_flag` : no '~' in the stream -/

open C05.Witness in
example : (runAll Kind.payload (State.init [p1Rd]) (chunksOf 100 90 stream)).2 =
      ds.map (fun d => Item.payload d.payload) ∧
    flagOctet ∉ (chunksOf 100 90 stream).flatten ∧
    (∀ cfg, Quiet (hdlcRd cfg) (chunksOf 100 90 stream)) ∧
    (runAll Kind.payload (State.init [hdlcRd ⟨true, true⟩, p1Rd]) (chunksOf 100 90 stream)).2 =
      ds.map (fun d => Item.payload d.payload) := by
  have h1 := clean_p1 tail ds (chunksOf 100 90 stream) htail hds (chunksOf_flatten 100 90 _)
  have he : (ds.filterMap fun d => if d.payload.isEmpty then none else some (Item.payload d.payload)) =
      ds.map (fun d => Item.payload d.payload) := by decide +kernel
  have hf : flagOctet ∉ (chunksOf 100 90 stream).flatten := by
    rw [chunksOf_flatten]; decide +kernel
  have hq : ∀ cfg, Quiet (hdlcRd cfg) (chunksOf 100 90 stream) := fun cfg => hdlc_quiet_without_flag cfg _ hf
  rw [he] at h1
  refine ⟨h1, hf, hq, ?_⟩
  rw [(quiet_candidate_irrelevant Kind.payload p1Rd (hdlcRd ⟨true, true⟩) _ (hq _)).2]
  exact h1

end Amshan.C13.Witness
