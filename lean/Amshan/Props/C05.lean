import Amshan.Lemmas.P1Clean
/-
  C05 — every P1 readout on a clean stream is delivered once, in order, byte-identical and valid,
  for every way of splitting the stream into read() calls and for streams of any total length.
-/
namespace Amshan.C05
open Amshan.Gen Amshan.P1 Amshan.P1Spec

theorem guard_pin : p1Guard = 8191 := by decide

/-- **C05.** `tail` is the (optional) rest of a readout the reader joined in the middle of: any
    bytes without a start character. Each readout fits the reader's size guard. -/
theorem p1_clean_delivered (tail : List Nat) (ds : List ReadoutDesc) (chunks : List (List Nat))
    (htail : Octets tail ∧ p1Start ∉ tail)
    (hds : ∀ d ∈ ds, d.WF ∧ d.encode.length ≤ p1Guard)
    (hch : chunks.flatten = tail ++ ds.flatMap ReadoutDesc.encode) :
    ∃ r outs, readAll Reader.init chunks = .ok (r, outs) ∧
      outs.flatten = ds.map expectedReadout := by
  have h47 : 47 ∉ tail := htail.2
  have hinv := inv_clean_start Reader.init rfl rfl (by simp [Reader.init, Buf.empty]) tail h47 ds hds
  rw [← hch] at hinv
  exact readAll_inv chunks Reader.init _ hinv

end Amshan.C05
