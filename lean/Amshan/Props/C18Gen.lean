import Amshan.Lemmas.GenCodeBackOff
/-
  C18 (tie by translation) — ExponentialBackOff.failure / reset / current_delay_sec and
  ConnectionManager._get_back_off_time, mechanically translated from the source, equal the model.
-/
namespace Amshan.C18
open Amshan.BackOff Amshan.GenCode

theorem gen_failure (s : Strategy) : backoffFailure s.delay = s.failure.delay := by
  rw [GenLemmas.backoffFailure_eq]; rfl

theorem gen_reset (s : Strategy) : backoffReset s.delay = s.reset.delay := by
  rw [GenLemmas.backoffReset_eq]; rfl

theorem gen_current (s : Strategy) : backoffCurrent s.delay s.maxDelay = s.current := by
  rw [GenLemmas.backoffCurrent_eq]; rfl

theorem gen_getBackOffTime (s : Strategy) (b : Breaker) :
    GenCode.getBackOffTime s.current b.sleepFlag b.sleepSec = BackOff.getBackOffTime s b := by
  rw [GenLemmas.getBackOffTime_eq]; rfl

end Amshan.C18
