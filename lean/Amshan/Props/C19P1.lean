import Amshan.Lemmas.P1Bound
/-
  C19 (P1 part) — the memory retained by the P1 reader after a read() call is bounded by a constant
  plus (twice) the size of the last chunk, independently of how many bytes were fed before.
  `Reader.size` = octets in the input bytearray (consumed ones are dropped at the next call)
                + octets of the collected lines (`_raw_data`).
  The constant is twice the guard: octets of a popped line stay in the bytearray (before the read
  position) until the next call while the same octets are copied into the collected lines, so a
  pending line is counted in both summands.
-/
namespace Amshan.C19
open Amshan.Gen Amshan.P1

/-- `p1Guard + 2 * chunk.length` is NOT a bound: after "/ABC5\r\n" followed by `p1Guard - 7` octets
    'a' (pending: 7 collected octets + 8184 unread octets without LF, within the guard) the
    one-octet chunk "\n" completes the line; then 8185 octets are before the read position of the
    bytearray and 8192 octets are collected: size 16377 > 8193. -/
example : ∃ r chunk r' outs, Reachable r ∧ read r chunk = .ok (r', outs) ∧
    ¬ r'.size ≤ p1Guard + 2 * chunk.length :=
  size_not_guard_plus_two_chunks

/-- The factor 2 on the guard: `size` counts the consumed octets still held by the bytearray and
    their copy in the collected lines (see the example above). -/
theorem p1_bounded (r : Reader) (hr : Reachable r) (chunk : List Nat) (r' : Reader)
    (outs : List Readout) (h : read r chunk = .ok (r', outs)) :
    r'.size ≤ 2 * p1Guard + 2 * chunk.length :=
  have _ := hr   -- reachability is not needed
  (read_bounds r chunk r' outs h).1

/-- what is carried into the next call (unread input + collected lines, after dropping consumed
    bytes and applying the guard) never exceeds the guard -/
theorem p1_pending_bounded (r : Reader) (hr : Reachable r) (chunk : List Nat) (r' : Reader)
    (outs : List Readout) (h : read r chunk = .ok (r', outs)) :
    r'.buf.inp.length + r'.raw.length ≤ p1Guard + chunk.length :=
  have _ := hr   -- reachability is not needed
  (read_bounds r chunk r' outs h).2

end Amshan.C19
