import Amshan.Lemmas.GenCodeHdlc
/-
  C01 (tie by translation) — the HdlcFrameHeader accessors frame_format, frame_format_type,
  segmentation, frame_length, information_position, control, header_check_sequence, destination_address,
  source_address, the helpers _get_address (a `while True:` loop) and _get_control_field_position, update(),
  and the HdlcFrame accessors is_good_ffc, is_expected_length, frame_check_sequence, payload, is_valid,
  mechanically translated from the source, equal the model's accessors.  All equalities are unconditional:
  they hold for every `data` / cached control position / FCS register, reachable or not.
-/
namespace Amshan.C01
open Amshan.Hdlc Amshan.GenCode

theorem gen_frameFormat (f : Frame) : hdlcFrameFormat f.data = f.frameFormat := by
  exact GenLemmas.hdlcFrameFormat_eq f

theorem gen_formatType (f : Frame) : hdlcFrameFormatType f.data = f.formatType := by
  exact GenLemmas.hdlcFrameFormatType_eq f

theorem gen_segmentation (f : Frame) : hdlcSegmentation f.data = f.segmentation := by
  exact GenLemmas.hdlcSegmentation_eq f

theorem gen_frameLength (f : Frame) : hdlcFrameLength f.data = f.frameLength := by
  exact GenLemmas.hdlcFrameLength_eq f

theorem gen_infoPos (f : Frame) : hdlcInformationPosition f.ctlPos = f.infoPos := by
  exact GenLemmas.hdlcInformationPosition_eq f

/-! ### fields at the cached control position -/

theorem gen_control (f : Frame) : hdlcControl f.data f.ctlPos = f.control := by
  exact GenLemmas.hdlcControl_eq f

theorem gen_hcs (f : Frame) : hdlcHeaderCheckSequence f.data f.ctlPos = f.hcs := by
  exact GenLemmas.hdlcHeaderCheckSequence_eq f

/-! ### addresses and the control position -/

/-- The `while True:` loop of `_get_address`, translated as recursion on fuel: whatever is answered when the
    fuel runs out (`oof`), with more fuel than octets left it is the model's `getAddressFrom` — so the loop
    always leaves by one of its `return`s before the fuel `len(frame) + 1` granted by `hdlcGetAddress` is used. -/
theorem gen_getAddress_loop (data : List Nat) (position : Nat) (oof : Option (List Nat))
    (fuel : Nat) (adr : List Nat) (i cur : Nat) (hi : i ≤ data.length) (hfuel : data.length < fuel + i) :
    hdlcGetAddress.loop1 data position oof fuel adr i data cur = (getAddressFrom (data.drop i)).map (adr ++ ·) := by
  exact GenLemmas.hdlcGetAddress_loop_eq data position oof fuel adr i cur hi hfuel

theorem gen_getAddress (data : List Nat) (position : Nat) : hdlcGetAddress data position = getAddress data position := by
  exact GenLemmas.hdlcGetAddress_eq data position

theorem gen_dest (f : Frame) : hdlcDestinationAddress f.data = f.dest := by
  exact GenLemmas.hdlcDestinationAddress_eq f.data

theorem gen_src (f : Frame) : hdlcSourceAddress f.data = f.src := by
  exact GenLemmas.hdlcSourceAddress_eq f.data

theorem gen_controlPos (data : List Nat) : hdlcGetControlFieldPosition data = controlPos data := by
  exact GenLemmas.hdlcGetControlFieldPosition_eq data

/-- `HdlcFrameHeader.update()`, as called by `HdlcFrame.append(b)` after the octet has been stored: the cached
    control position it leaves is the one of `Frame.append` (for any state of the unmodelled `_is_header_good`). -/
theorem gen_update (f : Frame) (b : Nat) (isGoodFfc : Bool) (isHeaderGood : Option Bool) :
    (hdlcHeaderUpdate (f.data ++ [b]) isGoodFfc f.ctlPos isHeaderGood).1 = (f.append b).ctlPos := by
  exact GenLemmas.hdlcHeaderUpdate_append f b isGoodFfc isHeaderGood

/-! ### HdlcFrame -/

theorem gen_isGoodFfc (f : Frame) : hdlcIsGoodFfc (Fcs.isGood f.crc) = f.isGoodFfc := by
  exact GenLemmas.hdlcIsGoodFfc_eq f

theorem gen_isExpectedLength (f : Frame) : hdlcIsExpectedLength f.data = f.isExpectedLength := by
  exact GenLemmas.hdlcIsExpectedLength_eq f

theorem gen_fcsField (f : Frame) : hdlcFrameCheckSequence f.data f.ctlPos = f.fcsField := by
  exact GenLemmas.hdlcFrameCheckSequence_eq f

/-- the truncated `len - 2` / `len - 1` of the translation are the Python indices whenever a value is returned -/
theorem gen_fcsField_guard (data : List Nat) (ctlPos : Option Nat)
    (h : (hdlcFrameCheckSequence data ctlPos).isSome) : 3 ≤ data.length := by
  exact GenLemmas.hdlcFrameCheckSequence_guard data ctlPos h

theorem gen_payload (f : Frame) : hdlcPayload f.data f.ctlPos = f.payload := by
  exact GenLemmas.hdlcPayload_eq f

/-- `is_valid` (the warning it logs is dropped) -/
theorem gen_isValid (f : Frame) : hdlcIsValid f.isGoodFfc f.data = f.isValid := by
  exact GenLemmas.hdlcIsValid_eq f

end Amshan.C01
