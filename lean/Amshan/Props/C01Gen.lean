import Amshan.Lemmas.GenCodeHdlc
/-
  C01 (tie by translation) — the HdlcFrameHeader accessors frame_format, frame_format_type,
  segmentation, frame_length and information_position, mechanically translated from the source, equal
  the model's accessors.
-/
namespace Amshan.C01
open Amshan.Hdlc Amshan.GenCode

theorem gen_frameFormat (f : Frame) : hdlcFrameFormat f.data = f.frameFormat := by
  exact GenLemmas.hdlcFrameFormat_eq f

theorem gen_formatType (f : Frame) : hdlcFrameFormatType f.data = f.formatType := by
  exact GenLemmas.hdlcFrameFormatType_eq f

theorem gen_segmentation (f : Frame) : hdlcSegmentation f.data = f.segmentation := by
  exact GenLemmas.hdlcSegmentation_eq f

theorem gen_frameLength (f : Frame) : hdlcFrameLength f.data = f.frameLength := by
  exact GenLemmas.hdlcFrameLength_eq f

theorem gen_infoPos (f : Frame) : hdlcInformationPosition f.ctlPos = f.infoPos := by
  exact GenLemmas.hdlcInformationPosition_eq f

end Amshan.C01
