import Amshan.Props.C20
/-
  C20 — non-vacuity witnesses on real OBIS codes: `1-0:1.8.0*255` (P1 style), `1.1.31.7.0.255` (Kamstrup current
  L1), `1.0.1.7.0.255` (active power, six-part), `0-0:96.1.0`, `1-1:0.2.129*255`, `255-255:255.255.255*255`,
  and malformed strings.
-/
namespace Amshan.C20.Witness
set_option linter.defProp false
open Amshan.Gen Amshan.Obis Amshan.ObisSpec

def s (x : String) : List Nat := x.toList.map Char.toNat

/-- (instance search does not find `DecidableEq` of the six-fold product by itself) -/
instance : DecidableEq Groups := fun g h => inferInstanceAs (Decidable (g = h))

instance (x : Option Nat) : Decidable (C20.absentOrNonZero x) := by
  unfold C20.absentOrNonZero; cases x <;> infer_instance

/-! ### `parse_reduced` : every group ≤ 255 (absent groups allowed) -/

example : reduced (some 1) (some 0) 1 8 (some 0) (some 255) = s "1-0:1.8.0*255" ∧
    parse (s "1-0:1.8.0*255") = .ok (some 1, some 0, 1, 8, some 0, some 255) := by
  have h : reduced (some 1) (some 0) 1 8 (some 0) (some 255) = s "1-0:1.8.0*255" := by decide
  exact ⟨h, h ▸ parse_reduced (some 1) (some 0) 1 8 (some 0) (some 255) (by decide) (by decide) (by decide) (by decide)
    (by decide) (by decide)⟩

/-- presence patterns: only C.D (`3.4` of the test file), B and E, A and F, all at the maximum -/
example : parse (s "3.4") = .ok (none, none, 3, 4, none, none) ∧
    parse (s "0:96.1.0") = .ok (none, some 0, 96, 1, some 0, none) ∧
    parse (s "1-3.4*6") = .ok (some 1, none, 3, 4, none, some 6) ∧
    parse (s "255-255:255.255.255*255") = .ok (some 255, some 255, 255, 255, some 255, some 255) := by
  refine ⟨?_, ?_, ?_, ?_⟩
  · exact (by decide : reduced none none 3 4 none none = s "3.4") ▸
      parse_reduced none none 3 4 none none (by decide) (by decide) (by decide) (by decide) (by decide) (by decide)
  · exact (by decide : reduced none (some 0) 96 1 (some 0) none = s "0:96.1.0") ▸
      parse_reduced none (some 0) 96 1 (some 0) none (by decide) (by decide) (by decide) (by decide) (by decide) (by decide)
  · exact (by decide : reduced (some 1) none 3 4 none (some 6) = s "1-3.4*6") ▸
      parse_reduced (some 1) none 3 4 none (some 6) (by decide) (by decide) (by decide) (by decide) (by decide) (by decide)
  · exact (by decide : reduced (some 255) (some 255) 255 255 (some 255) (some 255) = s "255-255:255.255.255*255") ▸
      parse_reduced (some 255) (some 255) 255 255 (some 255) (some 255) (by decide) (by decide) (by decide) (by decide)
        (by decide) (by decide)

/-- the hypothesis excludes exactly what the property excludes (groups 0..255): 256 is out -/
example : ¬ optLe (some 256) 255 := by decide

/-! ### `parse_standard` -/

example : standard 1 1 31 7 0 255 = s "1.1.31.7.0.255" ∧
    parse (s "1.1.31.7.0.255") = .ok (some 1, some 1, 31, 7, some 0, some 255) ∧
    parse (s "1.0.1.7.0.255") = .ok (some 1, some 0, 1, 7, some 0, some 255) := by
  have h1 : standard 1 1 31 7 0 255 = s "1.1.31.7.0.255" := by decide
  have h2 : standard 1 0 1 7 0 255 = s "1.0.1.7.0.255" := by decide
  exact ⟨h1, h1 ▸ parse_standard 1 1 31 7 0 255 (by decide) (by decide) (by decide) (by decide) (by decide) (by decide),
    h2 ▸ parse_standard 1 0 1 7 0 255 (by decide) (by decide) (by decide) (by decide) (by decide) (by decide)⟩

/-! ### `no_ddd_raises` : no digit-dot-digit anywhere;  `parse_error_is_valueError` : `parse s = .error e` -/

example : hasDigitDotDigit (s "") = false ∧ hasDigitDotDigit (s "1-0:") = false ∧ hasDigitDotDigit (s "kWh") = false ∧
    hasDigitDotDigit (s "1. 8") = false ∧ hasDigitDotDigit (s ".8.") = false ∧
    parse (s "") = .error .valueError ∧ parse (s "1-0:") = .error .valueError ∧ parse (s "kWh") = .error .valueError ∧
    parse (s "1. 8") = .error .valueError ∧ parse (s ".8.") = .error .valueError :=
  ⟨by decide, by decide, by decide, by decide, by decide, no_ddd_raises _ (by decide), no_ddd_raises _ (by decide),
   no_ddd_raises _ (by decide), no_ddd_raises _ (by decide), no_ddd_raises _ (by decide)⟩

/-- a string WITH digit-dot-digit that still fails (C is empty: `:.8.0`): the error class is ValueError -/
example : ∃ e, parse (s "1-0:.8.0") = .error e ∧ e = .valueError := by
  cases h : parse (s "1-0:.8.0") with
  | error e => exact ⟨e, rfl, parse_error_is_valueError _ e h⟩
  | ok g =>
    have : (match parse (s "1-0:.8.0") with | .ok _ => true | .error _ => false) = false := by decide
    rw [h] at this; cases this

/-! ### `hash_congr` : `eqObis g h = true` — the same code written in the two syntaxes -/

example : let g := (parse (s "1-0:1.8.0*255")).toOption.getD default
    let h := (parse (s "1.0.1.8.0.255")).toOption.getD default
    eqObis g h = true ∧ hashKey g = hashKey h ∧ eqStr g (s "1.0.1.8.0.255") = true := by
  intro g h
  have e : eqObis g h = true := by decide
  exact ⟨e, hash_congr g h e, by decide⟩

/-! ### `cde_exact` : C, D, E ≤ 255 -/

example : cdeStr (some 1, some 1, 31, 7, some 0, some 255) = s "31.7.0" ∧
    cdeStr (none, none, 255, 255, some 255, none) = s "255.255.255" := by
  constructor
  · rw [cde_exact (some 1) (some 1) 31 7 0 (some 255) (by decide) (by decide) (by decide)]; decide
  · rw [cde_exact none none 255 255 255 none (by decide) (by decide) (by decide)]; decide

/-! ### `toReducedStr_eq`, `roundtrip`, `roundtrip_str` : optional groups ≤ 255 and absent or NON-ZERO -/

/-- `1-1:0.2.129*255` (list version identifier): A, B, E, F present and non-zero, C = 0 is allowed -/
example : optLe (some 1) 255 ∧ absentOrNonZero (some 1) ∧ absentOrNonZero (some 129) ∧
    toReducedStr (some 1, some 1, 0, 2, some 129, some 255) = s "1-1:0.2.129*255" ∧
    parse (toReducedStr (some 1, some 1, 0, 2, some 129, some 255)) = .ok (some 1, some 1, 0, 2, some 129, some 255) ∧
    parse (toStr (some 1, some 1, 0, 2, some 129, some 255)) = .ok (some 1, some 1, 0, 2, some 129, some 255) := by
  refine ⟨by decide, by decide, by decide, ?_, ?_, ?_⟩
  · rw [toReducedStr_eq (some 1) (some 1) 0 2 (some 129) (some 255) ⟨by decide, by decide⟩ ⟨by decide, by decide⟩
      (by decide) (by decide) ⟨by decide, by decide⟩ ⟨by decide, by decide⟩]
    decide
  · exact roundtrip (some 1) (some 1) 0 2 (some 129) (some 255) ⟨by decide, by decide⟩ ⟨by decide, by decide⟩
      (by decide) (by decide) ⟨by decide, by decide⟩ ⟨by decide, by decide⟩
  · exact roundtrip_str (some 1) (some 1) 0 2 (some 129) (some 255) ⟨by decide, by decide⟩ ⟨by decide, by decide⟩
      (by decide) (by decide) ⟨by decide, by decide⟩ ⟨by decide, by decide⟩

/-- all groups non-zero: `str()` uses the six-part form (the input of defect D1 had A and B present) -/
example : toStr (some 1, some 1, 1, 8, some 1, some 255) = s "1.1.1.8.1.255" ∧
    parse (toStr (some 1, some 1, 1, 8, some 1, some 255)) = .ok (some 1, some 1, 1, 8, some 1, some 255) ∧
    toReducedStr (some 1, some 1, 1, 8, none, none) = s "1-1:1.8" :=
  ⟨by decide, roundtrip_str (some 1) (some 1) 1 8 (some 1) (some 255) ⟨by decide, by decide⟩ ⟨by decide, by decide⟩
      (by decide) (by decide) ⟨by decide, by decide⟩ ⟨by decide, by decide⟩, by decide⟩

/-- what the side condition excludes — and it is needed: the REAL code 1-0:1.8.0*255 has B = 0 and E = 0; formatting
    drops them and parsing the result gives other groups -/
example : ¬ absentOrNonZero (some 0) ∧
    toReducedStr (some 1, some 0, 1, 8, some 0, some 255) = s "1-1.8*255" ∧
    parse (toReducedStr (some 1, some 0, 1, 8, some 0, some 255)) = .ok (some 1, none, 1, 8, none, some 255) := by
  decide

/-! ### `showNat_eq_dec'` : `n ≤ 255` -/
example : showNat 255 = dec 255 ∧ showNat 0 = dec 0 := ⟨showNat_eq_dec' 255 (by decide), showNat_eq_dec' 0 (by decide)⟩

end Amshan.C20.Witness
