import Amshan.Lemmas.GenCodeHdlcReader
/-
  C02 (tie by translation) — the theorems of this property speak about the model's per-octet machine
  (`Hdlc.readNext` / `Hdlc.handleFlag`).  These two statements re-export, under this property, that the
  state-machine core of `HdlcFrameReader` as mechanically translated from the current source
  (Amshan/GeneratedCodeHdlcReader.lean) is that machine: see Props/C01GenReader.lean for the reading of the result
  flags.  A change of `_read_next`, `_handle_flag_sequence`, `_append_to_frame`, `_start_frame` or
  `_goto_hunt_mode` that is not provably behaviour-preserving therefore breaks an obligation of C02 too.
-/
namespace Amshan.C02
open Amshan.Hdlc Amshan.GenCode

/-- the translated `_read_next` and the model's `readNext` agree on the new state and on what was done -/
theorem gen_readNext_tie (cfg : Cfg) (c : Core) (x : Nat) :
    hdlcReadNext cfg c x = ((readNext cfg c x).1, GenLemmas.actFlags (readNext cfg c x).2) :=
  GenLemmas.hdlcReadNext_eq cfg c x

/-- the translated `_handle_flag_sequence` and the model's `handleFlag` likewise -/
theorem gen_handleFlag_tie (cfg : Cfg) (c : Core) :
    hdlcHandleFlagSequence cfg c = ((handleFlag cfg c).1, GenLemmas.actFlags (handleFlag cfg c).2) :=
  GenLemmas.hdlcHandleFlagSequence_eq cfg c

end Amshan.C02
