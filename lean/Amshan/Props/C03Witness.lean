import Amshan.Props.C03
/-
  C03 — non-vacuity witnesses on the octets of a REAL frame (tests/test_hdlc.py
  FRAME_WITH_FLAG_SEQUENCE_CHARACTER_IN_INFO, 37 octets followed by the transmitted FCS EA 5E) and on
  its header (6 octets followed by the transmitted HCS 5A 87).
-/
namespace Amshan.C03.Witness
open Amshan.Gen Amshan.Rfc1662

/-- the frame without its last two octets -/
def msg : List Nat :=
  [0xA0, 0x27, 0x01, 0x02, 0x01, 0x10, 0x5A, 0x87, 0xE6, 0xE7, 0x00, 0x0F, 0x40, 0x00, 0x00, 0x00, 0x09, 0x0C,
   0x07, 0xE4, 0x02, 0x0F, 0x06, 0x01, 0x19, 0x22, 0xFF, 0x80, 0x00, 0x00, 0x02, 0x01, 0x06, 0x00, 0x00, 0x15, 0x7E]

/-- flag, whole frame, flag — as `compute_checksum(data, start, length)` would be given it -/
def data : List Nat := [0x7E] ++ msg ++ [0xEA, 0x5E] ++ [0x7E]

/-! `step_eq_serial` : `r < 65536`, `b < 256` — the "good" residue and a flag octet; the last register
    value and the last octet -/
example : (0xF0B8 : Nat) < 65536 ∧ (0x7E : Nat) < 256 ∧ Fcs.next 0xF0B8 0x7E = stepSerial 0xF0B8 0x7E :=
  ⟨by decide, by decide, step_eq_serial _ _ (by decide) (by decide)⟩
example : Fcs.next 65535 255 = stepSerial 65535 255 := step_eq_serial _ _ (by decide) (by decide)

/-! `update_eq`, `checksum_eq` : `Octets bs` -/
example : Octets msg ∧ Fcs.feed fcsInit msg = register msg ∧ Fcs.checksum (Fcs.feed fcsInit msg) = fcs16 msg :=
  ⟨by decide, update_eq msg (by decide), checksum_eq msg (by decide)⟩

/-- …and that FCS is the transmitted one: low octet EA first, then 5E -/
example : fcs16 msg = 0x5EEA ∧ Fcs.checksum (Fcs.feed fcsInit msg) = 0x5EEA := by
  constructor <;> decide +kernel

/-! `computeChecksum_eq` : `Octets data`, window inside the data — the window that skips the opening
    flag and stops before the FCS; and the header window, whose FCS is the transmitted HCS 5A 87 -/
example : Octets data ∧ 1 + 37 ≤ data.length ∧
    Fcs.computeChecksum data 1 37 = .ok (fcs16 ((data.drop 1).take 37)) ∧ (data.drop 1).take 37 = msg :=
  ⟨by decide, by decide, computeChecksum_eq data 1 37 (by decide) (by decide), by decide⟩
example : Fcs.computeChecksum data 1 6 = .ok 0x875A := by
  rw [computeChecksum_eq data 1 6 (by decide) (by decide)]; decide +kernel
/-- empty window at the very end: allowed by the hypothesis (`start + len ≤ length`) -/
example : Fcs.computeChecksum data 41 0 = .ok (fcs16 []) :=
  computeChecksum_eq data 41 0 (by decide) (by decide)

/-! `computeChecksum_out_of_range` : `0 < len`, window leaves the data -/
example : 0 < 2 ∧ 40 + 2 > data.length ∧ Fcs.computeChecksum data 40 2 = .error .indexError :=
  ⟨by decide, by decide, computeChecksum_out_of_range data 40 2 (by decide) (by decide)⟩

/-! `residue` : `Octets m`, `t0 < 256`, `t1 < 256` — both directions -/

/-- the transmitted trailer: good -/
example : Octets msg ∧ (0xEA : Nat) < 256 ∧ (0x5E : Nat) < 256 ∧
    Fcs.isGood (Fcs.feed fcsInit (msg ++ [0xEA, 0x5E])) = true :=
  ⟨by decide, by decide, by decide, (residue msg 0xEA 0x5E (by decide) (by decide) (by decide)).2 (by decide +kernel)⟩

/-- the trailer with its octets swapped (high octet first): not good -/
example : Fcs.isGood (Fcs.feed fcsInit (msg ++ [0x5E, 0xEA])) = false := by
  have h := residue msg 0x5E 0xEA (by decide) (by decide) (by decide)
  cases hg : Fcs.isGood (Fcs.feed fcsInit (msg ++ [0x5E, 0xEA])) with
  | false => rfl
  | true => exact absurd (h.1 hg).1 (by decide +kernel)

/-- from `is_good` to the trailer (the direction that matters for "no damaged frame is labelled valid") -/
example : (0xEA : Nat) = fcs16 msg % 256 ∧ (0x5E : Nat) = fcs16 msg / 256 :=
  (residue msg 0xEA 0x5E (by decide) (by decide) (by decide)).1 (by decide +kernel)

/-! `computeLoop_eq` (helper of `computeChecksum_eq`) : `i + n ≤ data.length` — the header window -/
example : 1 + 6 ≤ data.length ∧ Fcs.computeLoop data 1 6 fcsInit = .ok (Fcs.feed fcsInit ((data.drop 1).take 6)) :=
  ⟨by decide, computeLoop_eq data 6 1 fcsInit (by decide)⟩

end Amshan.C03.Witness
