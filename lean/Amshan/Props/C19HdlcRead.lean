import Amshan.Props.C19Hdlc
import Amshan.Lemmas.HdlcReadLevel
/-
  C19 (HDLC part) — `hdlc_bounded` is already a statement about one `read()` call from a reachable
  reader.  Added: the bound after ANY further sequence of calls (hence after every call of it), and
  the bound on the frame under construction for any reachable reader (`hdlc_frame_bounded` is stated
  on the octet machine from the initial state).
-/
namespace Amshan.C19
open Amshan.Gen Amshan.Hdlc

/-- **C19 (HDLC), over a whole call history.** From any reachable reader, after any sequence of
    `read()` calls with any chunks (any sizes, any number), the reader holds at most three
    maximum-size frames plus one octet — independently of how many bytes have been fed. -/
theorem hdlc_bounded_readAll (cfg : Cfg) (r : Reader) (hr : Reachable cfg r) (cs : List (List Nat)) :
    (readAll cfg r cs).1.size ≤ 3 * maxFrameLen + 1 :=
  hdlc_reachable_bounded cfg _ (hr.readAll cs)

/-- … in particular after every single call of the sequence: the reader after the first `n` calls
    is within the bound, for every `n` -/
theorem hdlc_bounded_every_call (cfg : Cfg) (r : Reader) (hr : Reachable cfg r)
    (cs : List (List Nat)) (n : Nat) :
    (readAll cfg r (cs.take n)).1.size ≤ 3 * maxFrameLen + 1 :=
  hdlc_bounded_readAll cfg r hr (cs.take n)

/-- the frame under construction of any reachable reader never exceeds the maximum frame length -/
theorem hdlc_frame_bounded_read (cfg : Cfg) (r : Reader) (hr : Reachable cfg r) :
    match r.core.frame with
    | some f => f.len ≤ maxFrameLen
    | none => True := by
  cases hf : r.core.frame with
  | none => trivial
  | some f => exact (Bnd_some hf hr.bnd).1

/-! ### non-vacuity: after 100 calls of 1000 flags, a frame start that never ends (real header, then
    2 000 escape octets — stuffing on), then one call of 65 536 octets -/
namespace ReadWitness
set_option linter.defProp false

def hist : List (List Nat) :=
  List.replicate 100 (List.replicate 1000 0x7E) ++
    [[0x7E, 0xA0, 0x27, 0x01, 0x02, 0x01, 0x10, 0x5A, 0x87] ++ List.replicate 2000 0x7D]

def rd : Reader := (readAll ⟨true, true⟩ Reader.init hist).1
def rd_reach : Reachable ⟨true, true⟩ rd := ⟨hist, rfl⟩

example : (readAll ⟨true, true⟩ rd [List.replicate 65536 0x7D, [], [0x7E, 0x7E]]).1.size ≤ 3 * maxFrameLen + 1 :=
  hdlc_bounded_readAll ⟨true, true⟩ rd rd_reach _

example : (readAll ⟨true, true⟩ rd ([List.replicate 65536 0x7D, [], [0x7E, 0x7E]].take 1)).1.size ≤
    3 * maxFrameLen + 1 :=
  hdlc_bounded_every_call ⟨true, true⟩ rd rd_reach _ 1

example : match rd.core.frame with
    | some f => f.len ≤ maxFrameLen
    | none => True :=
  hdlc_frame_bounded_read ⟨true, true⟩ rd rd_reach

example : 3 * maxFrameLen + 1 = 6142 := by decide

end ReadWitness

end Amshan.C19
