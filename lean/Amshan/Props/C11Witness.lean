import Amshan.Props.C11
import Amshan.Props.C11Float
/-
  C11 — non-vacuity witnesses on REAL data lines of tests/test_dlde.py (EXAMPLE_DATA_B / _C): a blank line,
  the clock, energies in kWh, power in kW, reactive power in kvar (lower case) and kVAr (mixed case), voltage,
  current, an empty value `0-0:96.13.1()`, a data set with SIX values (`1-0:99.97.0(5)(0-0:96.7.19)…`), a data
  set with two values (`0-1:24.2.1(180924130000S)(04890.857*m3)`), LF-only and CR LF line ends, two data sets on
  one line.
-/
namespace Amshan.C11.Witness
set_option linter.defProp false
set_option maxRecDepth 100000
open Amshan.Gen Amshan.Cosem Amshan.P1Parse Amshan.P1BlockSpec

def s (x : String) : List Nat := x.toList.map Char.toNat

/-- (instance search does not find `DecidableEq` of the six-fold product by itself) -/
instance : DecidableEq Obis.Groups := fun g h => inferInstanceAs (Decidable (g = h))

/-- the dictionary of a successful result -/
def dictOf (r : Except PyExc Dict) : Dict := match r with | .ok d => d | .error _ => []

instance (v : ValueDesc) : Decidable v.WF := by unfold ValueDesc.WF; cases v.unit <;> infer_instance
instance (d : DataSetDesc) : Decidable d.WF := by unfold DataSetDesc.WF; infer_instance
instance (l : LineDesc) : Decidable l.WF := by unfold LineDesc.WF; infer_instance

def v (value : String) (unit : Option String := none) : ValueDesc := ⟨s value, unit.map s⟩
def one (addr value : String) (unit : Option String := none) : LineDesc := ⟨[⟨s addr, [v value unit]⟩], true⟩

def block : List LineDesc := [
  ⟨[], true⟩,                                                        -- blank line
  one "0-0:1.0.0" "201020085222W",
  one "1-0:1.8.0" "00001605.055" (some "kWh"),
  one "1-0:1.7.0" "0006.000" (some "kW"),
  one "1-0:3.7.0" "0000.200" (some "kvar"),
  one "1-0:4.7.0" "0000.308" (some "kVAr"),
  one "1-0:32.7.0" "234.4" (some "V"),
  one "1-0:31.7.0" "013.6" (some "A"),
  one "0-0:96.13.1" "",
  ⟨[⟨s "1-0:99.97.0", [v "5", v "0-0:96.7.19", v "170520130938S", v "0000005627" (some "s"), v "170325044014W",
      v "0043178677" (some "s")]⟩], true⟩,
  ⟨[⟨s "0-1:24.2.1", [v "180924130000S", v "04890.857" (some "m3")]⟩], false⟩,                -- LF only
  ⟨[⟨s "1-0:21.7.0", [v "0003.172" (some "kW")]⟩, ⟨s "1-0:22.7.0", [v "0000.000" (some "kW")]⟩], true⟩]

/-- the rendering is the text the meter sends -/
example : render block = [
    "\r\n", "0-0:1.0.0(201020085222W)\r\n", "1-0:1.8.0(00001605.055*kWh)\r\n", "1-0:1.7.0(0006.000*kW)\r\n",
    "1-0:3.7.0(0000.200*kvar)\r\n", "1-0:4.7.0(0000.308*kVAr)\r\n", "1-0:32.7.0(234.4*V)\r\n", "1-0:31.7.0(013.6*A)\r\n",
    "0-0:96.13.1()\r\n", "1-0:99.97.0(5)(0-0:96.7.19)(170520130938S)(0000005627*s)", "(170325044014W)(0043178677*s)\r\n",
    "0-1:24.2.1(180924130000S)(04890.857*m3)\n", "1-0:21.7.0(0003.172*kW)1-0:22.7.0(0000.000*kW)\r\n"].flatMap s := by
  decide +kernel

/-! ### `parse_block`, `decode_block` : hypothesis `∀ l ∈ b, l.WF` -/

def wfBlock : ∀ l ∈ block, l.WF := by decide +kernel

/-- 12 data sets come out (the six- and the two-valued ones included), in order -/
example : ∃ iters, parseContent (render block) = .ok (expectedSets block, iters) ∧ (expectedSets block).length = 12 ∧
    iters ≤ (render block).length := by
  obtain ⟨iters, h⟩ := parse_block block wfBlock
  exact ⟨iters, h, by decide +kernel, parse_cost_tight _ _ _ h⟩

/-- `parse_cost` : hypothesis `parseContent data = .ok (items, iters)` (same instance) -/
example : ∃ iters, parseContent (render block) = .ok (expectedSets block, iters) ∧ iters ≤ 2 * (render block).length + 2 := by
  obtain ⟨iters, h⟩ := parse_block block wfBlock
  exact ⟨iters, h, parse_cost _ _ _ h⟩

/-- the decoded dictionary of the block, evaluated: names, exact W/var, V and A as sent, clock, verbatim -/
example : decodeContent (render block) = decodeParsed (expectedSets block) ∧
    let d := dictOf (decodeParsed (expectedSets block))
    decodeParsed (expectedSets block) = .ok d ∧
      d.lookup "meter_datetime" = some (.dt ⟨2020, 10, 20, 8, 52, 22, 0, none⟩) ∧
      d.lookup "active_power_import_total" = some (.int 1605055) ∧
      d.lookup "active_power_import" = some (.int 6000) ∧
      d.lookup "reactive_power_import" = some (.int 200) ∧
      d.lookup "reactive_power_export" = some (.int 308) ∧
      d.lookup "voltage_l1" = some (.flt (Flt.ofRat false 2344 10)) ∧
      d.lookup "current_l1" = some (.flt (Flt.ofRat false 136 10)) ∧
      d.lookup "96.13.1" = some (.str []) ∧
      d.lookup "active_power_import_l1" = some (.int 3172) ∧
      d.lookup "99.97.0" = none ∧ d.lookup "24.2.1" = none := by
  refine ⟨?_, ?_⟩
  · rw [decode_block block wfBlock]; rfl
  · decide +kernel

/-! ### `decode_name` : `Obis.parse item.address = .ok g`, `decodeItem item = .ok (k, v)` -/

def gPower : Obis.Groups := (some 1, some 0, 1, 7, some 0, none)

example : Obis.parse (s "1-0:1.7.0") = .ok gPower ∧
    decodeItem ⟨s "1-0:1.7.0", [⟨s "0006.000", some (s "kW")⟩]⟩ = .ok ("active_power_import", .int 6000) ∧
    "active_power_import" = (match obisNameMap.lookup (Py.toString (Obis.cdeStr gPower)) with
         | some n => n | none => Py.toString (Obis.cdeStr gPower)) := by
  have hg : Obis.parse (s "1-0:1.7.0") = .ok gPower := by decide +kernel
  have hd : decodeItem ⟨s "1-0:1.7.0", [⟨s "0006.000", some (s "kW")⟩]⟩ = .ok ("active_power_import", .int 6000) := by
    decide +kernel
  exact ⟨hg, hd, decode_name _ _ _ _ hg hd⟩

/-- an address unknown to the name table: the key is the C.D.E text -/
example : decodeItem ⟨s "0-0:96.13.1", [⟨[], none⟩]⟩ = .ok ("96.13.1", .str []) := by decide +kernel

/-! ### `decode_verbatim` : parsed address, not the clock code -/

example : Obis.parse (s "0-0:96.14.0") = .ok (some 0, some 0, 96, 14, some 0, none) ∧
    Obis.cdeStr (some 0, some 0, 96, 14, some 0, none) ≠ clockCde ∧
    ∃ k, decodeItem ⟨s "0-0:96.14.0", [⟨s "0002", none⟩]⟩ = .ok (k, .str (s "0002")) :=
  ⟨by decide +kernel, by decide +kernel,
   decode_verbatim _ _ (some 0, some 0, 96, 14, some 0, none) (by decide +kernel) (by decide +kernel)⟩

/-! ### `decode_plain_unit` : unit ∈ {V, A, var, varh} in any case, `Flt.ofStr value = .ok f` -/

example : unitsPlain.contains (Py.lower (s "V")) = true ∧ s "V" ≠ [] ∧
    Flt.ofStr (s "234.4") = .ok (Flt.ofRat false 2344 10) ∧
    ∃ k, decodeItem ⟨s "1-0:32.7.0", [⟨s "234.4", some (s "V")⟩]⟩ = .ok (k, .flt (Flt.ofRat false 2344 10)) :=
  ⟨by decide +kernel, by decide +kernel, by decide +kernel,
   decode_plain_unit _ _ _ (some 1, some 0, 32, 7, some 0, none) _ (by decide +kernel) (by decide +kernel)
     (by decide +kernel) (by decide +kernel)⟩

/-- mixed-case unit `VArh` with leading zeros -/
example : ∃ k, decodeItem ⟨s "1-0:3.8.0", [⟨s "00000518.309", some (s "VArh")⟩]⟩ = .ok (k, .flt (Flt.ofRat false 518309 1000)) :=
  decode_plain_unit _ _ _ (some 1, some 0, 3, 8, some 0, none) _ (by decide +kernel) (by decide +kernel)
    (by decide +kernel) (by decide +kernel)

/-! ### `decode_kilo_unit` with `kilo_unit_bound` : the test file's own example 1.011 kW → 1010 W (one below
    the exact product 1011, never above), and an exact one -/

example : unitsKilo.contains (Py.lower (s "kW")) = true ∧
    Flt.ofStr (s "1.011") = .ok (Flt.ofRat false 1011 1000) ∧
    Flt.toInt (Flt.mul (Flt.ofRat false 1011 1000) (Flt.ofNat 1000)) = .ok 1010 ∧
    ∃ k, decodeItem ⟨s "1-0:1.7.0", [⟨s "1.011", some (s "kW")⟩]⟩ = .ok (k, .int 1010) :=
  ⟨by decide +kernel, by decide +kernel, by decide +kernel,
   decode_kilo_unit _ _ _ gPower (Flt.ofRat false 1011 1000) 1010 (by decide +kernel) (by decide +kernel) (by decide +kernel)
     (by decide +kernel) (by decide +kernel)⟩

example : ∃ k, decodeItem ⟨s "1-0:1.8.0", [⟨s "00001605.055", some (s "kWh")⟩]⟩ = .ok (k, .int 1605055) :=
  decode_kilo_unit _ _ _ (some 1, some 0, 1, 8, some 0, none) (Flt.ofRat false 1605055 1000) 1605055
    (by decide +kernel) (by decide +kernel) (by decide +kernel) (by decide +kernel) (by decide +kernel)

/-- `kilo_unit_bound` : `k ≤ 3`, `m · 10^(3−k) < 2^50` — 1.011 (m = 1011, k = 3) and 230.1 (m = 2301, k = 1) -/
example : (3 ≤ 3) ∧ 1011 * 10 ^ (3 - 3) < 2 ^ 50 ∧
    (Flt.toInt (Flt.mul (Flt.ofRat false 1011 (10 ^ 3)) (Flt.ofNat 1000)) = .ok ((1011 * 10 ^ (3 - 3) : Nat) : Int) ∨
     Flt.toInt (Flt.mul (Flt.ofRat false 1011 (10 ^ 3)) (Flt.ofNat 1000)) = .ok (((1011 * 10 ^ (3 - 3) : Nat) : Int) - 1)) :=
  ⟨by decide, by decide, kilo_unit_bound 1011 3 (by decide) (by decide)⟩
example : Flt.toInt (Flt.mul (Flt.ofRat false 2301 (10 ^ 1)) (Flt.ofNat 1000)) = .ok 230100 := by
  rcases kilo_unit_bound 2301 1 (by decide) (by decide) with h | h
  · exact h
  · rw [h]; exact absurd h (by decide +kernel)

/-- the link that NO theorem of Props/C11*.lean states in general — `float("…")` of a decimal text with k
    fractional digits is `ofRat m 10^k` — checked here on instances only -/
example : Flt.ofStr (s "0006.000") = .ok (Flt.ofRat false 6000 (10 ^ 3)) ∧
    Flt.ofStr (s "00001605.055") = .ok (Flt.ofRat false 1605055 (10 ^ 3)) ∧
    Flt.ofStr (s "230.1") = .ok (Flt.ofRat false 2301 (10 ^ 1)) ∧
    Flt.ofStr (s "42") = .ok (Flt.ofRat false 42 (10 ^ 0)) := by
  decide +kernel

/-- `scaled_correct` : `v < 2^32`, `s ∈ {1,2,3}` -/
example : Flt.roundDigits (Flt.mul (Flt.ofInt (14571 : Nat)) (Flt.tenPowNeg 3)) 3 = Flt.ofRat false 14571 (10 ^ 3) ∧
    Flt.roundDigits (Flt.mul (Flt.ofInt (4294967295 : Nat)) (Flt.tenPowNeg 1)) 1 = Flt.ofRat false 4294967295 (10 ^ 1) :=
  ⟨scaled_correct 14571 3 (by decide) (by decide), scaled_correct 4294967295 1 (by decide) (by decide)⟩

/-! ### `decode_clock` : parsed address with C.D.E = 1.0.0 and a valid YYMMDDhhmmss -/

example : Obis.parse (s "0-0:1.0.0") = .ok (some 0, some 0, 1, 0, some 0, none) ∧
    Obis.cdeStr (some 0, some 0, 1, 0, some 0, none) = clockCde ∧
    ∃ k, decodeItem ⟨s "0-0:1.0.0", [⟨s "201020085222W", none⟩]⟩ =
      .ok (k, .dt { year := 2020, month := 10, day := 20, hour := 8, minute := 52, second := 22, micro := 0, tz := none }) :=
  ⟨by decide +kernel, by decide +kernel,
   decode_clock (s "0-0:1.0.0") (some 0, some 0, 1, 0, some 0, none) (by decide +kernel) (by decide +kernel) 20 10 20 8 52 22 (s "W") (by decide)⟩

/-! ### `readout_eq_content_plus_ident` : `decodeContent r.payload = .ok d`, `r.identLine = .ok m` -/

/-- a whole readout: `/LGF5E360`, the block above, `!` (no checksum) -/
def readout : P1.Readout :=
  let bytes := s "/LGF5E360\r\n" ++ render block ++ s "!\r\n"
  { bytes := bytes, endPos := bytes.length - 3, dataPos := 11 }

example : let d := dictOf (decodeContent readout.payload)
    decodeContent readout.payload = .ok d ∧
    readout.identLine = .ok ⟨s "LGF", some (s "E360")⟩ ∧
    decodeReadout readout = .ok ((d.set field_METER_MANUFACTURER_ID (.str (s "LGF"))).set field_METER_TYPE_ID (.str (s "E360"))) ∧
    d.length = 10 := by
  intro d
  have hd : decodeContent readout.payload = .ok d := by decide +kernel
  have hm : readout.identLine = .ok ⟨s "LGF", some (s "E360")⟩ := by decide +kernel
  exact ⟨hd, hm, readout_eq_content_plus_ident readout d _ hd hm, by decide +kernel⟩

/-! ### `decode_guard_passes`, `decode_guard_rejects` -/

example : (∀ c ∈ render block, 32 ≤ c ∨ c = 13 ∨ c = 10) ∧
    decodeContent (render block) = decodeParsedContent (render block) :=
  ⟨by decide +kernel, decode_guard_passes _ (by decide +kernel)⟩

/-- a COSEM list (Kaifa list 1, `02 01 06 28 29 28 29`) given to the P1 content decoder: refused -/
example : (∃ c ∈ [2, 1, 6, 40, 41, 40, 41], c < 32 ∧ c ≠ 13 ∧ c ≠ 10) ∧
    decodeContent [2, 1, 6, 40, 41, 40, 41] = .error .valueError :=
  ⟨⟨2, by decide, by decide⟩, decode_guard_rejects _ ⟨2, by decide, by decide⟩⟩

end Amshan.C11.Witness
