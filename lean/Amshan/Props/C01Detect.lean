import Amshan.Props.C01
import Amshan.Props.C03Detect
/-
  C01 — "no damaged frame is ever labelled valid", for damage of exactly one octet, at frame level:
  a frame object (as the reader builds it: `FrameInv`) whose octets differ in exactly one position
  from those of a frame reported valid is reported NOT valid — any length, any position (format
  octets, addresses, control, HCS, information, the FCS itself).  Corollary of `valid_iff_intact` and
  of the bijectivity of the FCS step (`C03.one_octet_damage_detected`).
-/
namespace Amshan.C01
open Amshan.Gen Amshan.Hdlc Amshan.HdlcSpec Amshan.Rfc1662

/-- an intact octet string leaves the "good" register -/
theorem intact_isGood (d : List Nat) (h : Octets d) (hi : Intact d) :
    Fcs.isGood (Fcs.feed fcsInit d) = true := by
  obtain ⟨_, m, t0, t1, e, h0, h1⟩ := hi
  subst e
  have hm : Octets m := fun b hb => h b (by simp [hb])
  have ht0 : t0 < 256 := h t0 (by simp)
  have ht1 : t1 < 256 := h t1 (by simp)
  exact (C03.residue m t0 t1 hm ht0 ht1).2 ⟨h0, h1⟩

/-- **C01.** One damaged octet makes an intact octet string not intact. -/
theorem intact_one_octet_damage (p s : List Nat) (x y : Nat) (hp : Octets p) (hs : Octets s)
    (hx : x < 256) (hy : y < 256) (hne : x ≠ y) (hi : Intact (p ++ x :: s)) :
    ¬ Intact (p ++ y :: s) := by
  intro hi'
  have oct : ∀ z, z < 256 → Octets (p ++ z :: s) := by
    intro z hz b hb
    simp only [List.mem_append, List.mem_cons] at hb
    rcases hb with hb | hb | hb
    · exact hp b hb
    · exact hb ▸ hz
    · exact hs b hb
  have g1 := intact_isGood _ (oct x hx) hi
  have g2 := intact_isGood _ (oct y hy) hi'
  have := C03.one_octet_damage_detected p s x y hp hs hx hy hne g1
  rw [this] at g2
  cases g2

/-- **C01 (frame level).** A frame object whose octets are those of a valid frame with exactly one
    octet changed is not reported valid. -/
theorem one_octet_damage_not_valid (f g : Frame) (hf : FrameInv f) (hg : FrameInv g)
    (p s : List Nat) (x y : Nat) (ef : f.data = p ++ x :: s) (eg : g.data = p ++ y :: s)
    (hne : x ≠ y) (hv : f.isValid = true) : g.isValid = false := by
  have of := hf.2.2
  have og := hg.2.2
  rw [ef] at of
  rw [eg] at og
  have hp : Octets p := fun b hb => of b (by simp [hb])
  have hs : Octets s := fun b hb => of b (by simp [hb])
  have hx : x < 256 := of x (by simp)
  have hy : y < 256 := og y (by simp)
  have hi : Intact (p ++ x :: s) := ef ▸ (valid_iff_intact f hf).1 hv
  have hni := intact_one_octet_damage p s x y hp hs hx hy hne hi
  cases hgv : g.isValid with
  | false => rfl
  | true =>
    have := (valid_iff_intact g hg).1 hgv
    rw [eg] at this
    exact absurd this hni

/-- **C01.** Damage confined to two neighbouring octets makes an intact octet string not intact. -/
theorem intact_two_adjacent_octets_damage (p s : List Nat) (x1 x2 y1 y2 : Nat) (hp : Octets p)
    (hs : Octets s) (hx1 : x1 < 256) (hx2 : x2 < 256) (hy1 : y1 < 256) (hy2 : y2 < 256)
    (hne : ¬ (x1 = y1 ∧ x2 = y2)) (hi : Intact (p ++ x1 :: x2 :: s)) :
    ¬ Intact (p ++ y1 :: y2 :: s) := by
  intro hi'
  have oct : ∀ z1 z2, z1 < 256 → z2 < 256 → Octets (p ++ z1 :: z2 :: s) := by
    intro z1 z2 h1 h2 b hb
    simp only [List.mem_append, List.mem_cons] at hb
    rcases hb with hb | hb | hb | hb
    · exact hp b hb
    · exact hb ▸ h1
    · exact hb ▸ h2
    · exact hs b hb
  have g1 := intact_isGood _ (oct x1 x2 hx1 hx2) hi
  have g2 := intact_isGood _ (oct y1 y2 hy1 hy2) hi'
  have := C03.two_adjacent_octets_damage_detected p s x1 x2 y1 y2 hp hs hx1 hx2 hy1 hy2 hne g1
  rw [this] at g2
  cases g2

/-- **C01 (frame level).** A frame object whose octets are those of a valid frame with damage confined to
    two neighbouring octets is not reported valid. -/
theorem two_adjacent_octets_damage_not_valid (f g : Frame) (hf : FrameInv f) (hg : FrameInv g)
    (p s : List Nat) (x1 x2 y1 y2 : Nat) (ef : f.data = p ++ x1 :: x2 :: s)
    (eg : g.data = p ++ y1 :: y2 :: s) (hne : ¬ (x1 = y1 ∧ x2 = y2)) (hv : f.isValid = true) :
    g.isValid = false := by
  have of := hf.2.2
  have og := hg.2.2
  rw [ef] at of
  rw [eg] at og
  have hp : Octets p := fun b hb => of b (by simp [hb])
  have hs : Octets s := fun b hb => of b (by simp [hb])
  have hi : Intact (p ++ x1 :: x2 :: s) := ef ▸ (valid_iff_intact f hf).1 hv
  have hni := intact_two_adjacent_octets_damage p s x1 x2 y1 y2 hp hs (of x1 (by simp)) (of x2 (by simp))
    (og y1 (by simp)) (og y2 (by simp)) hne hi
  cases hgv : g.isValid with
  | false => rfl
  | true =>
    have := (valid_iff_intact g hg).1 hgv
    rw [eg] at this
    exact absurd this hni

end Amshan.C01
