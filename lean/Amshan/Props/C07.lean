import Amshan.Lemmas.AidonRT
/-
  C07 — Aidon lists decode to the transmitted register values, scaled exactly.
-/
namespace Amshan.C07
open Amshan.Gen Amshan.Cosem Amshan.ListSpec

theorem name_pins : field_METER_MANUFACTURER = "meter_manufacturer" := by
  decide

/-- **C07 (bare notification body).** For every list of well-formed elements — any OBIS codes in any
    order, text elements, clock elements, registers of every transmitted integer type over their
    whole range with any scaler −128..127 and unit — decoding yields exactly the expected dictionary:
    keyed by the common field name (or C.D.E), value = register × 10^scaler (the integer when
    scaler = 0 or register = 0, otherwise the correctly rounded double), text verbatim, clock = the
    transmitted date-time, manufacturer 'Aidon'.  Octets after the list are ignored. -/
theorem aidon_roundtrip_body (es : List AidonElem) (h : ∀ e ∈ es, e.WF) (hl : es.length ≤ 255)
    (trail : List Nat) :
    Aidon.decodeBody (encAidonBody es ++ trail) = .dict (aidonExpected es) :=
  AidonRT.decodeBody_enc es h trail

/-- **C07 (LLC frame content).** The same dictionary, for any LLC/APDU header (null, tagged or
    untagged date-time). -/
theorem aidon_roundtrip_frame (hd : Header) (hh : hd.WF) (es : List AidonElem) (h : ∀ e ∈ es, e.WF)
    (hl : es.length ≤ 255) (trail : List Nat) :
    Aidon.decodeFrame (encHeader hd ++ encAidonBody es ++ trail) = .dict (aidonExpected es) :=
  AidonRT.decodeFrame_enc hd hh es h trail

/-- the value is an `int` exactly when register × 10^scaler equals the register -/
theorem scaled_int_iff (v sc : Int) : (∃ z, scaledValue v sc = .int z) ↔ (sc = 0 ∨ v = 0) :=
  AidonRT.scaled_int_iff v sc

example : (AidonElem.reg [1, 0, 31, 7, 0, 255] .s16 (-57) (-1) 33).WF := by unfold AidonElem.WF; decide

end Amshan.C07
