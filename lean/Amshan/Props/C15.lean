import Amshan.Lemmas.DecTotal
/-
  C15 — AutoDecoder returns a dictionary or None for every input, and terminates.
  In the model every decoder is a total function into `Except PyExc Dict`; "no exception escapes"
  is that `step` never returns `.error`, which holds because the `except` clause read from the source
  catches every exception class (`C12.all_caught`).  Termination: every loop of the source is
  modelled with explicit fuel; the theorems show the fuel supplied is never what stops a loop.
-/
namespace Amshan.C15
open Amshan.Gen Amshan.Cosem Amshan.Dec

/-- **C15.** `decode_message_payload` returns a dictionary or None for every byte string and every
    remembered decoder. -/
theorem no_escape_payload (prev : Option Nat) (p : List Nat) : ∃ r, stepPayload prev p = .ok r := by
  exact C12.step_total decoders caught DecTotal.caught_all prev p

/-- **C15.** …and so does `decode_message`. -/
theorem no_escape_message (prev : Option Nat) (m : Message) : ∃ r, stepMessage prev m = .ok r := by
  unfold stepMessage
  cases m.payload with
  | none => exact ⟨_, rfl⟩
  | some p =>
    simp only
    split
    · exact ⟨_, rfl⟩
    · exact C12.step_total _ _ (fun e => (C12.all_caught e).2) prev p

/-- the seven decoders are all present, in the order of the source -/
theorem decoders_length : decoders.length = 7 := by
  exact DecTotal.decoders_length

/-- **C15 (termination of the P1 parser).** For every input, including unbalanced parentheses and
    trailing garbage on a line, parsing ends with a result or ValueError, never by exhausting the
    model's fuel; and the number of loop iterations is linear in the input length. -/
theorem p1_parse_terminates (data : List Nat) : P1Parse.parseContent data ≠ .error .overflowError := by
  exact DecTotal.p1_parse_ne_overflow data

theorem p1_parse_linear (data : List Nat) (items : List P1Parse.DataSet) (iters : Nat)
    (h : P1Parse.parseContent data = .ok (items, iters)) : iters ≤ 2 * data.length + 2 := by
  have := DecTotal.p1_parse_cost data items iters h
  omega

/-- **C15 (GreedyRange terminates).** Giving the greedy loops more fuel than `input length + 1` never
    changes the result, i.e. the fuel is never what stops them: every iteration consumes input. -/
theorem kamstrup_greedy_fuel (s : List Nat) (k : Nat) :
    Kamstrup.greedy (s.length + 1 + k) s = Kamstrup.greedy (s.length + 1) s := by
  exact DecTotal.kamstrup_greedy_indep s.length s (Nat.le_refl _) _ _ (by omega) (by omega)

theorem kaifa_greedy_fuel (s : List Nat) (k : Nat) :
    Kaifa.greedyObis (s.length + 1 + k) s = Kaifa.greedyObis (s.length + 1) s := by
  exact DecTotal.kaifa_greedy_indep s.length s (Nat.le_refl _) _ _ (by omega) (by omega)

/-- the number of elements a greedy loop returns is at most the number of input octets -/
theorem kamstrup_greedy_count (s : List Nat) (es : List Kamstrup.Element) (r : List Nat)
    (h : Kamstrup.greedy (s.length + 1) s = .ok es r) : es.length ≤ s.length := by
  have := DecTotal.kamstrup_greedy_count _ _ _ _ h
  omega

end Amshan.C15
