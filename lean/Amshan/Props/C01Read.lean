import Amshan.Props.C01
import Amshan.Props.C01Framing
import Amshan.Props.C06
import Amshan.Lemmas.HdlcReadLevel
/-
  C01 at the entry point — the theorems of Props/C01.lean and Props/C01Framing.lean restated for
  `HdlcFrameReader.read()` itself: every configuration, every reader reachable by `read()` calls on
  byte strings (`ReachableOct`; a new reader is one), every further list of chunks `cs` (any splitting
  of the stream into `read()` calls, empty chunks included).  `(readAll cfg r cs).2.flatten` is the
  concatenation of the frame lists returned by the successive calls.
  The bridge is `C06.readAll_eq_run` (through `Reachable.frames_eq_run`).
-/
namespace Amshan.C01
open Amshan.Gen Amshan.Hdlc Amshan.HdlcSpec

/-- every frame `read()` returns satisfies the frame invariant, and the reader stays reachable -/
theorem read_frames_inv (cfg : Cfg) (r : Reader) (hr : ReachableOct cfg r) (cs : List (List Nat))
    (hcs : Octets cs.flatten) :
    (∀ f ∈ (readAll cfg r cs).2.flatten, FrameInv f) ∧ ReachableOct cfg (readAll cfg r cs).1 :=
  ⟨hr.frames_inv cs hcs, hr.readAll cs hcs⟩

/-- **C01 (validity), for `read()`.** For every byte stream, every way of splitting it into `read()`
    calls and every reader configuration, each frame the reader returns reports `is_valid = true`
    exactly when its length field equals its octet count and its last two octets are the RFC 1662
    FCS-16 of the preceding ones, low octet first. -/
theorem read_valid_iff_intact (cfg : Cfg) (r : Reader) (hr : ReachableOct cfg r) (cs : List (List Nat))
    (hcs : Octets cs.flatten) :
    ∀ f ∈ (readAll cfg r cs).2.flatten, (f.isValid = true ↔ Intact f.data) :=
  fun f hf => valid_iff_intact f (hr.frames_inv cs hcs f hf)

/-- the same from a new reader (the form asked for in the audit, §1.10) -/
theorem read_valid_iff_intact_init (cfg : Cfg) (cs : List (List Nat)) (hcs : Octets cs.flatten) :
    ∀ f ∈ (readAll cfg Reader.init cs).2.flatten, (f.isValid = true ↔ Intact f.data) :=
  read_valid_iff_intact cfg Reader.init (ReachableOct.init cfg) cs hcs

/-- every frame `read()` returns has a complete header (no hypothesis on the octets) -/
theorem read_has_hcs (cfg : Cfg) (r : Reader) (hr : Reachable cfg r) (cs : List (List Nat)) :
    ∀ f ∈ (readAll cfg r cs).2.flatten, f.hcs.isSome = true := by
  rw [hr.frames_eq_run cs]
  exact returned_has_hcs cfg r.core cs.flatten

/-- **C01 (exact fields), for `read()`.** Every frame `read()` returns decomposes into format octets,
    destination address, source address, control, header check sequence and the rest, and every
    accessor returns exactly the corresponding octets. -/
theorem read_accessors_exact (cfg : Cfg) (r : Reader) (hr : ReachableOct cfg r) (cs : List (List Nat))
    (hcs : Octets cs.flatten) :
    ∀ f ∈ (readAll cfg r cs).2.flatten,
      ∃ a b dst src ctl h1 h2 rest,
        f.data = [a, b] ++ dst ++ src ++ [ctl, h1, h2] ++ rest ∧ addrWF dst = true ∧ addrWF src = true ∧
        f.dest = some dst ∧ f.src = some src ∧ f.control = some ctl ∧ f.hcs = some (h1 * 256 + h2) ∧
        f.infoPos = some (2 + dst.length + src.length + 3) ∧
        f.frameLength = some ((a * 256 + b) % 2048) ∧
        f.formatType = some (a / 16 % 16) ∧
        (rest = [] → f.payload = none ∧ f.fcsField = some (h1 * 256 + h2)) ∧
        (∀ x, rest = [x] → f.payload = some [] ∧ f.fcsField = some (h2 * 256 + x)) ∧
        (∀ info f1 f2, rest = info ++ [f1, f2] →
          f.payload = some info ∧ f.fcsField = some (f1 * 256 + f2)) := by
  intro f hf
  have hinv : FrameInv f := hr.frames_inv cs hcs f hf
  have hh : f.hcs.isSome = true := read_has_hcs cfg r hr.reachable cs f hf
  obtain ⟨a, b, dst, src, ctl, h1, h2, rest, hd, hdst, hsrc⟩ := header_shape f hinv hh
  exact ⟨a, b, dst, src, ctl, h1, h2, rest, hd, hdst, hsrc,
    accessors_exact f hinv a b dst src ctl h1 h2 rest hd hdst hsrc⟩

/-- **C01 (framing), for `read()`.** From a new reader, whatever the splitting: the octets of the
    returned frames occur contiguously in the concatenated input between two flag octets (after
    un-stuffing when octet stuffing is on), no input octet is used by two frames, frames come out in
    stream order. -/
theorem read_framing (cfg : Cfg) (cs : List (List Nat)) :
    ∃ segs, Carve cs.flatten segs ∧
      (readAll cfg Reader.init cs).2.flatten.map (·.data) = segs.map (decode cfg.stuffing) := by
  rw [(ReachableOct.init cfg).frames_eq_run cs]
  exact framing cfg cs.flatten

/-- the same for any reachable reader that is hunting (no frame in progress): the frames are carved out
    of the chunks given from now on -/
theorem read_framing_hunting (cfg : Cfg) (r : Reader) (hr : Reachable cfg r)
    (hh : r.core.frame = none) (cs : List (List Nat)) :
    ∃ segs, Carve cs.flatten segs ∧
      (readAll cfg r cs).2.flatten.map (·.data) = segs.map (decode cfg.stuffing) := by
  rw [hr.frames_eq_run cs]
  exact run_carve_hunt cfg r.core hh cs.flatten

/-- … and for any reachable reader together with its history `hist` (a frame in progress began in
    the history): the frames returned so far followed by the frames returned from now on are carved out
    of the history followed by the new chunks — octets are not reused across calls either. -/
theorem read_framing_history (cfg : Cfg) (hist cs : List (List Nat)) :
    ∃ segs, Carve (hist.flatten ++ cs.flatten) segs ∧
      ((readAll cfg Reader.init hist).2.flatten ++
        (readAll cfg (readAll cfg Reader.init hist).1 cs).2.flatten).map (·.data) =
      segs.map (decode cfg.stuffing) := by
  have h := read_framing cfg (hist ++ cs)
  rw [readAll_append] at h
  simpa only [List.flatten_append] using h

/-! ### non-vacuity, on a real frame

  tests/test_hdlc.py FRAME_WITH_FLAG_SEQUENCE_CHARACTER_IN_INFO: a Kaifa list-1 push, 39 octets,
  one-octet destination 01, two-octet source 02 01, control 10, HCS 5A 87, a flag octet 7E inside the
  information field, FCS EA 5E.  Stuffing off, abort detection on.  The reader has already seen
  noise, the opening flag and the first five octets (in two calls); the rest arrives in four calls,
  one of them empty. -/
namespace ReadWitness
set_option linter.defProp false

def info : List Nat :=
  [0xE6, 0xE7, 0x00, 0x0F, 0x40, 0x00, 0x00, 0x00, 0x09, 0x0C, 0x07, 0xE4, 0x02, 0x0F, 0x06, 0x01, 0x19,
   0x22, 0xFF, 0x80, 0x00, 0x00, 0x02, 0x01, 0x06, 0x00, 0x00, 0x15, 0x7E]
def octets : List Nat := [0xA0, 0x27, 0x01, 0x02, 0x01, 0x10, 0x5A, 0x87] ++ info ++ [0xEA, 0x5E]
def wcfg : Cfg := ⟨false, true⟩
def hist : List (List Nat) := [[0xC3, 0x11, 0x7E, 0xA0], [0x27, 0x01, 0x02, 0x01]]
def rest : List (List Nat) :=
  [[0x10, 0x5A], [], [0x87] ++ info.take 20, info.drop 20 ++ [0xEA, 0x5E, 0x7E]]
/-- a second copy with one bit flipped (… 15 7E → … 14 7E), after the good frame -/
def restBad : List (List Nat) :=
  rest ++ [octets.set 35 0x14, [0x7E]]
def good : Frame := octets.foldl Frame.append Frame.empty
def bad : Frame := (octets.set 35 0x14).foldl Frame.append Frame.empty
def rd : Reader := (readAll wcfg Reader.init hist).1

def rd_reach : ReachableOct wcfg rd := ⟨hist, by decide, rfl⟩

def rd_core : rd.core = (run wcfg Core.init hist.flatten).1 :=
  readAll_core wcfg Reader.init hist Reader.init_buf

/-- the reader is really in the middle of a frame -/
example : rd.core.frame.isSome = true := by rw [rd_core]; decide +kernel

/-- what the calls return: the real frame, then the damaged copy -/
def returned : (readAll wcfg rd restBad).2.flatten = [good, bad] := by
  rw [rd_reach.frames_eq_run restBad, rd_core]
  decide +kernel

/-- `read_frames_inv`, `read_valid_iff_intact`: all hypotheses hold; the real frame is reported valid,
    hence intact; the damaged one is reported invalid, hence not intact -/
example : Octets restBad.flatten ∧ FrameInv good ∧
    good.isValid = true ∧ Intact good.data ∧ bad.isValid = false ∧ ¬ Intact bad.data := by
  have ho : Octets restBad.flatten := by decide
  have hmem : ∀ f ∈ [good, bad], f ∈ (readAll wcfg rd restBad).2.flatten := by
    rw [returned]; exact fun f hf => hf
  have hg := read_valid_iff_intact wcfg rd rd_reach restBad ho good (hmem good (by simp))
  have hb := read_valid_iff_intact wcfg rd rd_reach restBad ho bad (hmem bad (by simp))
  have hgv : good.isValid = true := by decide +kernel
  have hbv : bad.isValid = false := by decide +kernel
  exact ⟨ho, (read_frames_inv wcfg rd rd_reach restBad ho).1 good (hmem good (by simp)),
    hgv, hg.1 hgv, hbv, fun hi => by rw [hb.2 hi] at hbv; cases hbv⟩

/-- `read_valid_iff_intact_init` on the whole stream from a new reader -/
example : Intact good.data := by
  have hret : (readAll wcfg Reader.init (hist ++ rest)).2.flatten = [good] := by
    rw [(ReachableOct.init wcfg).frames_eq_run]; decide +kernel
  exact (read_valid_iff_intact_init wcfg (hist ++ rest) (by decide) good (by rw [hret]; simp)).1
    (by decide +kernel)

/-- `read_has_hcs`, `read_accessors_exact`: the decomposition exists for the returned real frame, and
    for ITS decomposition the accessors give the real field values -/
example : good.hcs.isSome = true ∧ good.dest = some [0x01] ∧ good.src = some [0x02, 0x01] ∧
    good.control = some 0x10 ∧ good.payload = some info ∧ good.fcsField = some 0xEA5E := by
  have hmem : good ∈ (readAll wcfg rd restBad).2.flatten := by rw [returned]; simp
  have hh := read_has_hcs wcfg rd rd_reach.reachable restBad good hmem
  obtain ⟨a, b, dst, src, ctl, h1, h2, rs, hd, hdst, hsrc, _⟩ :=
    read_accessors_exact wcfg rd rd_reach restBad (by decide) good hmem
  -- the decomposition is unique; here it is
  have hinv : FrameInv good := (read_frames_inv wcfg rd rd_reach restBad (by decide)).1 good hmem
  obtain ⟨e1, e2, e3, _, _, _, _, _, _, e10⟩ :=
    accessors_exact good hinv 0xA0 0x27 [0x01] [0x02, 0x01] 0x10 0x5A 0x87 (info ++ [0xEA, 0x5E])
      (by decide +kernel) (by decide) (by decide)
  obtain ⟨e11, e12⟩ := e10 info 0xEA 0x5E rfl
  exact ⟨hh, e1, e2, e3, e11, e12⟩

/-- `read_framing`: instantiated on the whole stream from a new reader (six calls) -/
example : ∃ segs, Carve (hist ++ rest).flatten segs ∧ [good.data] = segs.map (decode wcfg.stuffing) := by
  have h := read_framing wcfg (hist ++ rest)
  have hret : (readAll wcfg Reader.init (hist ++ rest)).2.flatten = [good] := by
    rw [(ReachableOct.init wcfg).frames_eq_run]; decide +kernel
  rwa [hret] at h

/-- `read_framing_hunting`: a reachable reader that is hunting (it has only seen noise) -/
example : ∃ segs, Carve ([0x7E] :: [octets, [0x7E]]).flatten segs ∧
    ((readAll wcfg (readAll wcfg Reader.init [[0xC3, 0x11]]).1 ([0x7E] :: [octets, [0x7E]])).2.flatten.map
      (·.data)) = segs.map (decode wcfg.stuffing) :=
  read_framing_hunting wcfg _ ⟨[[0xC3, 0x11]], rfl⟩
    (by rw [readAll_core wcfg Reader.init _ Reader.init_buf]; decide +kernel) _

/-- `read_framing_history`: the mid-frame reader with its history -/
example : ∃ segs, Carve (hist.flatten ++ restBad.flatten) segs ∧
    (([] : List Frame) ++ [good, bad]).map (·.data) = segs.map (decode wcfg.stuffing) := by
  have h := read_framing_history wcfg hist restBad
  have h0 : (readAll wcfg Reader.init hist).2.flatten = [] := by
    rw [(ReachableOct.init wcfg).frames_eq_run]; decide +kernel
  have h1 : (readAll wcfg (readAll wcfg Reader.init hist).1 restBad).2.flatten = [good, bad] := returned
  rwa [h0, h1] at h

end ReadWitness

end Amshan.C01
