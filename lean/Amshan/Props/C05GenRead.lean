import Amshan.Lemmas.GenCodeP1Read
/-
  C05 (tie by translation, buffer level) — `ModeDReader.read(data_chunk)` and its line buffer `_ReaderBuffer`
  (han/dlde.py: `__len__`, `pop`, `extend`, `clear`, `trim_buffer_to_current_position`, `trim_buffer_to_flag_or_end`),
  mechanically translated from the current source (Amshan/GeneratedCodeP1Read.lean), equal the model's `P1.read`,
  `P1.loop` and `P1.Buf` functions.

  The Python-level state is the record `GenCode.P1PyReader` (`_buffer`: the record `GenCode.PyBuf` of the WHOLE
  bytearray and `_buffer_pos`; `_raw_data`; `_is_int_hunt_mode`).  The model forgets the contents of the bytearray
  before the read position: `GenLemmas.p1AbsBuf b = ⟨b.pos, b.buffer.drop b.pos⟩`, `GenLemmas.p1AbsReader` likewise; the
  buffer methods commute with it under the invariant `GenLemmas.P1BufInv b : b.pos ≤ b.buffer.length`, and keep it.

  Opaque in the translation, and mapped to the model: `DataReadout(raw)` is `Readout.make raw` (it may raise: the
  translated `read` answers `Except PyExc (state, readouts)`, like the model), `Ident.is_ident_line(text)` is
  `P1.isIdentLine`, `line.isascii()` is `Py.isAscii`, `line.decode("ascii")` gives the code points.  The translation of
  `line[0]` and of `decode` is total; the proof discharges their guards (a popped line is not empty; `isascii()` is
  tested first), under which the model's `handleLine` does not raise either.  The size guard is the literal of the
  source (the model reads the regenerated `p1Guard`).
  The `while True:` loop is translated as a recursion on fuel; `gen_p1_read_loop` holds for EVERY fuel larger than the
  number of unread octets and every out-of-fuel answer, so the fuel `read` grants is never used up.
-/
namespace Amshan.C05
open Amshan.P1 Amshan.GenCode Amshan.GenLemmas

/-! ### `_ReaderBuffer` -/

/-- `__len__`: all the octets the bytearray holds - the model's `Buf.size` -/
theorem gen_p1_buf_len (b : PyBuf) (hb : P1BufInv b) : p1BufLen b = (p1AbsBuf b).size :=
  p1BufLen_eq b hb

/-- `pop()` without a complete line: None, nothing changes -/
theorem gen_p1_buf_pop_none (b : PyBuf) (h : (p1AbsBuf b).pop = none) : p1BufPop b = (b, none) :=
  p1BufPop_none b h

/-- `pop()` with a complete line (`bytearray.find` from the read position, the slice, the new position) -/
theorem gen_p1_buf_pop_some (b : PyBuf) (hb : P1BufInv b) (line : List Nat) (b1 : P1.Buf)
    (h : (p1AbsBuf b).pop = some (line, b1)) :
    (p1BufPop b).2 = some line ∧ p1AbsBuf (p1BufPop b).1 = b1 ∧ P1BufInv (p1BufPop b).1 :=
  p1BufPop_some b hb line b1 h

/-- `extend(data_chunk)` -/
theorem gen_p1_buf_extend (b : PyBuf) (chunk : List Nat) (hb : P1BufInv b) :
    p1AbsBuf (p1BufExtend b chunk) = (p1AbsBuf b).extend chunk ∧ P1BufInv (p1BufExtend b chunk) :=
  p1BufExtend_eq b chunk hb

/-- `clear()` -/
theorem gen_p1_buf_clear (b : PyBuf) : p1AbsBuf (p1BufClear b) = Buf.empty ∧ P1BufInv (p1BufClear b) :=
  p1BufClear_eq b

/-- `trim_buffer_to_current_position()` -/
theorem gen_p1_buf_trimToPos (b : PyBuf) :
    p1AbsBuf (p1BufTrimToPos b) = (p1AbsBuf b).trimToPos ∧ P1BufInv (p1BufTrimToPos b) :=
  p1BufTrimToPos_eq b

/-- `trim_buffer_to_flag_or_end()` -/
theorem gen_p1_buf_trimToFlagOrEnd (b : PyBuf) :
    p1AbsBuf (p1BufTrimToFlagOrEnd b) = (p1AbsBuf b).trimToFlagOrEnd ∧ P1BufInv (p1BufTrimToFlagOrEnd b) :=
  p1BufTrimToFlagOrEnd_eq b

/-! ### the loop and `read` -/

/-- the `while True:` loop: the model's `loop`, for every fuel larger than the number of unread octets, whatever is
    answered when the fuel runs out (`oof`) -/
theorem gen_p1_read_loop (r0 : P1PyReader) (chunk : List Nat) (oof : Except PyExc (P1PyReader × List Readout))
    (fuel : Nat) (buf : PyBuf) (raw : List Nat) (hunt : Bool) (out : List Readout)
    (hb : P1BufInv buf) (hfuel : (p1AbsBuf buf).inp.length < fuel) :
    p1AbsAnswer (p1RdRead.loop1 r0 chunk oof fuel buf raw hunt out) = P1.loop (p1AbsBuf buf) raw hunt out :=
  (p1RdRead_loop_eq r0 chunk oof fuel buf raw hunt out hb hfuel).1

/-- `ModeDReader.read(data_chunk)`: for every Python-level reader state that satisfies the invariant, what the call
    answers - the exception, or the state afterwards (seen through the abstraction) and the readouts - is the model's -/
theorem gen_p1_read (r : P1PyReader) (chunk : List Nat) (hr : P1ReaderInv r) :
    p1AbsAnswer (p1RdRead r chunk) = P1.read (p1AbsReader r) chunk :=
  (p1RdRead_eq r chunk hr).1

/-- `read` preserves the invariant (when it returns) -/
theorem gen_p1_read_preserves_inv (r : P1PyReader) (chunk : List Nat) (hr : P1ReaderInv r)
    (p : P1PyReader × List Readout) (h : p1RdRead r chunk = .ok p) : P1ReaderInv p.1 :=
  (p1RdRead_eq r chunk hr).2 p h

/-- the reader that `ModeDReader.__init__` builds satisfies the invariant and is the model's initial reader -/
theorem gen_p1_init_inv : P1ReaderInv { buf := { buffer := [], pos := 0 }, raw := [], hunt := true } ∧
    p1AbsReader { buf := { buffer := [], pos := 0 }, raw := [], hunt := true } = Reader.init :=
  ⟨Nat.le_refl 0, rfl⟩

end Amshan.C05
