import Amshan.Props.C04Witness
import Amshan.Props.C04Detect
/-
  C04Detect — non-vacuity: `one_byte_damage_invalid` instantiated on the readout of C04Witness with one
  payload octet changed (position 56: '6' → '7') and the checksum field untouched.  Only `example`s.
-/
namespace Amshan.C04.Witness
open Amshan.Gen Amshan.P1 Amshan.P1Spec Amshan.Py

example : ∃ r, Readout.make (dS.encode.set 56 55) = .ok r ∧ r.isValid = .ok false := by
  have hm : Readout.make (dS.encode.set 56 55) = .ok ⟨dS.encode.set 56 55, 134, 11⟩ := by decide +kernel
  refine ⟨_, hm, one_byte_damage_invalid _ _ hm 0x1AE9
    ⟨49, 65, 69, 57, 1, 10, 14, 9, [13, 10], by decide +kernel, by decide, by decide, by decide, by decide, by decide,
      Or.inr (Or.inr rfl)⟩
    (dS.body.take 56) (dS.body.drop 57) (dS.body.getD 56 0) 55
    (by decide +kernel) (by decide +kernel) (by decide +kernel) (by decide +kernel) (by decide +kernel)
    (by decide +kernel) (by decide +kernel)⟩

end Amshan.C04.Witness
