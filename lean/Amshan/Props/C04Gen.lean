import Amshan.Lemmas.GenCodeP1
/-
  C04 (tie by translation) — DataReadout._calculate_crc16, mechanically translated from the source,
  equals the model's `calcCrc`.
-/
namespace Amshan.C04
open Amshan.P1 Amshan.GenCode

theorem gen_crc16 (r : Readout) : p1CalculateCrc16 r.bytes r.endPos = r.calcCrc := by
  exact GenLemmas.p1CalculateCrc16_eq r.bytes r.endPos

end Amshan.C04
