import Amshan.Props.C04
import Amshan.Lemmas.Fcs
/-
  C04 — what the CRC comparison buys: the CRC-16/ARC byte step is a bijection of the 16-bit register for
  every byte and injective in the byte, so two texts `'/' … '!'` that differ in exactly one byte never have
  the same CRC — a readout whose check-summed part has one damaged byte cannot match the checksum that
  was right for the undamaged one (any length, any position).  Theorems about the model `crc16` of
  `_calculate_crc16` (translated and proved equal to the model in Props/C04Gen.lean).
-/
namespace Amshan.C04
open Amshan.Gen Amshan.P1 Amshan.P1Spec Amshan.Py
open Amshan.FcsLemmas (xor_eq_zero xor_mod2)

/-- the shift with `>>>` instead of `/ 2` -/
def g (x : Nat) : Nat := if x % 2 = 1 then (x >>> 1) ^^^ 40961 else x >>> 1

theorem crcShift_eq_g (x : Nat) : crcShift x = g x := by
  unfold crcShift g
  have h : x >>> 1 = x / 2 := by rw [Nat.shiftRight_eq_div_pow]
  rw [h]

theorem g_lin (x y : Nat) : g (x ^^^ y) = g x ^^^ g y := by
  unfold g
  rw [xor_mod2, Nat.shiftRight_xor_distrib]
  rcases Nat.mod_two_eq_zero_or_one x with hx | hx <;>
  rcases Nat.mod_two_eq_zero_or_one y with hy | hy <;>
  simp [hx, hy]
  · ac_rfl
  · ac_rfl
  · have : 40961 ^^^ (y >>> 1 ^^^ 40961) = y >>> 1 := by
      rw [Nat.xor_comm (y >>> 1), ← Nat.xor_assoc, Nat.xor_self, Nat.zero_xor]
    rw [Nat.xor_assoc, this]

theorem g_ker (x : Nat) (h : x < 65536) (h0 : g x = 0) : x = 0 := by
  unfold g at h0
  have hs : x >>> 1 = x / 2 := by rw [Nat.shiftRight_eq_div_pow]
  split at h0
  · have := xor_eq_zero h0
    rw [hs] at this
    omega
  · rw [hs] at h0; omega

theorem crcShift_inj (x y : Nat) (hx : x < 65536) (hy : y < 65536) (h : crcShift x = crcShift y) :
    x = y := by
  rw [crcShift_eq_g, crcShift_eq_g] at h
  have h1 : g (x ^^^ y) = 0 := by rw [g_lin, h, Nat.xor_self]
  have hlt : x ^^^ y < 2 ^ 16 := Nat.xor_lt_two_pow hx hy
  exact xor_eq_zero (g_ker _ hlt h1)

theorem crcShifts_inj (n x y : Nat) (hx : x < 65536) (hy : y < 65536)
    (h : crcShifts n x = crcShifts n y) : x = y := by
  induction n generalizing x y with
  | zero => exact h
  | succ n ih =>
    exact crcShift_inj x y hx hy (ih _ _ (P1L.crcShift_lt x hx) (P1L.crcShift_lt y hy) h)

/-- one byte step of CRC-16/ARC -/
def arcStep (crc b : Nat) : Nat := crcShifts 8 (crc ^^^ b)

theorem arcStep_lt (r b : Nat) (hr : r < 65536) (hb : b < 256) : arcStep r b < 65536 :=
  P1L.crcShifts_lt 8 _ (Nat.xor_lt_two_pow (n := 16) hr (by omega))

theorem arcStep_inj_register (r r' b : Nat) (hr : r < 65536) (hr' : r' < 65536) (hb : b < 256)
    (h : arcStep r b = arcStep r' b) : r = r' := by
  have h1 : r ^^^ b < 65536 := Nat.xor_lt_two_pow (n := 16) hr (by omega)
  have h2 : r' ^^^ b < 65536 := Nat.xor_lt_two_pow (n := 16) hr' (by omega)
  have e := crcShifts_inj 8 _ _ h1 h2 h
  have := congrArg (· ^^^ b) e
  simpa [Nat.xor_assoc, Nat.xor_self, Nat.xor_zero] using this

theorem arcStep_inj_byte (r b b' : Nat) (hr : r < 65536) (hb : b < 256) (hb' : b' < 256)
    (h : arcStep r b = arcStep r b') : b = b' := by
  have h1 : r ^^^ b < 65536 := Nat.xor_lt_two_pow (n := 16) hr (by omega)
  have h2 : r ^^^ b' < 65536 := Nat.xor_lt_two_pow (n := 16) hr (by omega)
  have e := crcShifts_inj 8 _ _ h1 h2 h
  rw [Nat.xor_comm r b, Nat.xor_comm r b'] at e
  have := congrArg (· ^^^ r) e
  simpa [Nat.xor_assoc, Nat.xor_self, Nat.xor_zero] using this

theorem arcFold_lt (bs : List Nat) (r : Nat) (hr : r < 65536) (h : Octets bs) :
    bs.foldl arcStep r < 65536 := by
  induction bs generalizing r with
  | nil => exact hr
  | cons b bs ih =>
    simp only [List.foldl_cons]
    exact ih _ (arcStep_lt r b hr (h b (by simp))) (fun x hx => h x (by simp [hx]))

theorem arcFold_inj_register (bs : List Nat) (r r' : Nat) (hr : r < 65536) (hr' : r' < 65536)
    (h : Octets bs) (e : bs.foldl arcStep r = bs.foldl arcStep r') : r = r' := by
  induction bs generalizing r r' with
  | nil => exact e
  | cons b bs ih =>
    have hb : b < 256 := h b (by simp)
    simp only [List.foldl_cons] at e
    have := ih _ _ (arcStep_lt r b hr hb) (arcStep_lt r' b hr' hb) (fun x hx => h x (by simp [hx])) e
    exact arcStep_inj_register r r' b hr hr' hb this

/-- **C04 (single-byte sensitivity).** Two byte strings that differ in exactly one byte have different
    CRC-16/ARC values — any lengths, any position. -/
theorem one_byte_changes_crc (p s : List Nat) (x y : Nat) (hp : Octets p) (hs : Octets s)
    (hx : x < 256) (hy : y < 256) (hne : x ≠ y) :
    crc16 (p ++ x :: s) ≠ crc16 (p ++ y :: s) := by
  rw [crc_is_arc, crc_is_arc]
  intro e
  have e' : (p ++ x :: s).foldl arcStep 0 = (p ++ y :: s).foldl arcStep 0 := e
  rw [List.foldl_append, List.foldl_append] at e'
  simp only [List.foldl_cons] at e'
  have hr : p.foldl arcStep 0 < 65536 := arcFold_lt p 0 (by decide) hp
  have e2 := arcFold_inj_register s _ _ (arcStep_lt _ x hr hx) (arcStep_lt _ y hr hy) hs e'
  exact hne (arcStep_inj_byte _ x y hr hx hy e2)

/-- **C04.** Hence a checksum that is right for the undamaged text is wrong for the damaged one. -/
theorem one_byte_damage_mismatch (p s : List Nat) (x y : Nat) (hp : Octets p) (hs : Octets s)
    (hx : x < 256) (hy : y < 256) (hne : x ≠ y) (sent : Nat)
    (right : sent = crc16 (p ++ x :: s)) : sent ≠ crc16 (p ++ y :: s) := by
  rw [right]
  exact one_byte_changes_crc p s x y hp hs hx hy hne

/-- **C04 (readout level).** A readout whose transmitted checksum is the CRC of a text that differs in
    exactly one byte from the text it actually covers (`'/'` through `'!'`) is reported not valid. -/
theorem one_byte_damage_invalid (raw : List Nat) (r : Readout) (hm : Readout.make raw = .ok r) (v : Nat)
    (ht : IsChecksumText r.afterBang v) (p s : List Nat) (x y : Nat)
    (hcov : r.bytes.take (r.endPos + 1) = p ++ y :: s)
    (hp : Octets p) (hs : Octets s) (hx : x < 256) (hy : y < 256) (hne : x ≠ y)
    (hv : v = crc16Arc (p ++ x :: s)) : r.isValid = .ok false := by
  apply mismatch_invalid raw r hm v ht
  rw [hcov, hv, ← crc_is_arc, ← crc_is_arc]
  exact one_byte_changes_crc p s x y hp hs hx hy hne

/-- non-vacuity -/
example : crc16 ([47, 65] ++ 66 :: [33]) ≠ crc16 ([47, 65] ++ 67 :: [33]) :=
  one_byte_changes_crc [47, 65] [33] 66 67 (by decide) (by decide) (by decide) (by decide) (by decide)

end Amshan.C04
