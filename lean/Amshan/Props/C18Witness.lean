import Amshan.Props.C18
/-
  C18 — non-vacuity witnesses.  Only `breaker_sets` and `breaker_clears` carry hypotheses (`t1 ≤ t2` and the
  distance of the two losses relative to the threshold); times are microseconds.  The default manager
  (`Breaker.new`: threshold 5 s, sleep 5 s) with losses at 101 s and 103 s (inside) and at 101 s and 106 s
  (exactly the threshold: outside).  The unconditional strategy theorems are instantiated on a realistic
  failure()/reset() history.
-/
namespace Amshan.C18.Witness
open Amshan.Gen Amshan.BackOff

example : Breaker.new.threshold = 5 ∧ Breaker.new.sleepSec = 5 := by decide

/-- `breaker_sets` : two losses 2 s apart, strategy freshly reset (delay 0): the wait is the breaker's 5 s -/
example : (101000000 : Nat) ≤ 103000000 ∧ 103000000 - 101000000 < Breaker.new.threshold * 1000000 ∧
    Breaker.new.sleepSec ≤ getBackOffTime (Strategy.new 60) ((Breaker.new.update 101000000).update 103000000) ∧
    getBackOffTime (Strategy.new 60) ((Breaker.new.update 101000000).update 103000000) = 5 :=
  ⟨by decide, by decide, breaker_sets Breaker.new 101000000 103000000 (by decide) (by decide) (Strategy.new 60), by decide⟩

/-- … and after four failed attempts (delay 8 s) the larger of the two is used -/
example : getBackOffTime ((Strategy.new 60).run [.failure, .failure, .failure, .failure])
    ((Breaker.new.update 101000000).update 103000000) = 8 := by decide

/-- `breaker_clears` : two losses exactly 5 s apart — not "within" the threshold: no extra wait -/
example : (101000000 : Nat) ≤ 106000000 ∧ Breaker.new.threshold * 1000000 ≤ 106000000 - 101000000 ∧
    getBackOffTime (Strategy.new 60) ((Breaker.new.update 101000000).update 106000000) = (Strategy.new 60).current :=
  ⟨by decide, by decide, breaker_clears Breaker.new 101000000 106000000 (by decide) (by decide) (Strategy.new 60)⟩

/-- a breaker that had already fired clears again after a quiet period -/
example : let b := (Breaker.new.update 101000000).update 103000000
    b.sleepFlag = true ∧ getBackOffTime (Strategy.new 60) ((b.update 200000000).update 300000000) = 0 := by
  intro b
  refine ⟨by decide, ?_⟩
  rw [breaker_clears b 200000000 300000000 (by decide) (by decide)]; decide

/-! the unconditional strategy theorems on a history: 3 failures, success, 8 failures (cap 60 reached) -/
example : let ops := [Op.failure, .failure, .failure, .reset] ++ List.replicate 8 Op.failure
    failuresSinceReset ops = 8 ∧ ((Strategy.new 60).run ops).current = 60 ∧
    ((Strategy.new 3600).run ops).current = 128 ∧ ((Strategy.new 60).run (ops ++ [.reset])).current = 0 := by
  intro ops
  refine ⟨by decide, ?_, ?_, reset_restarts ops 60⟩
  · rw [backoff_value]; decide
  · rw [backoff_value]; decide

end Amshan.C18.Witness
