import Amshan.Lemmas.HdlcFrame
/-
  C01 (validity and exact fields) — a frame is reported valid exactly when it is intact, and the
  accessors return exactly the corresponding octets.  (Framing: Props/C01Framing.lean.)
-/
namespace Amshan.C01
open Amshan.Gen Amshan.Hdlc Amshan.HdlcSpec

theorem init_inv : CoreInv Core.init := by
  exact CoreInv_init

/-- every frame the reader returns, for every input and from every invariant-satisfying state,
    satisfies the frame invariant (running FCS register = FCS of the octets, cached control position
    = the position the address fields determine). -/
theorem run_frames_inv (cfg : Cfg) (c : Core) (inp : List Nat) (hc : CoreInv c) (hi : Octets inp) :
    (∀ f ∈ (run cfg c inp).2, FrameInv f) ∧ CoreInv (run cfg c inp).1 := by
  exact run_inv cfg c inp hc hi

/-- **C01 (validity).** `is_valid` is true exactly when the length field equals the octet count and
    the last two octets are the RFC 1662 FCS-16 of the preceding ones, low octet first. -/
theorem valid_iff_intact (f : Frame) (h : FrameInv f) : f.isValid = true ↔ Intact f.data := by
  obtain ⟨hcrc, _, hoct⟩ := h
  simp only [Frame.isValid, Bool.and_eq_true]
  match hd : f.data with
  | [] =>
    simp [Intact, Frame.isExpectedLength, Frame.frameLength, Frame.frameFormat, hd]
  | [_] =>
    simp [Intact, Frame.isExpectedLength, Frame.frameLength, Frame.frameFormat, hd]
  | a :: b :: t =>
    -- the length test
    have hlen : f.isExpectedLength = true ↔ ((a <<< 8 ||| b) &&& 0x7FF) = (a :: b :: t).length := by
      simp only [Frame.isExpectedLength, Frame.frameLength, Frame.frameFormat_of f a b t hd,
        Option.map_some, Frame.len, hd, beq_iff_eq, Option.some.injEq]
    -- the FCS test
    obtain ⟨m, t0, t1, hm⟩ := split_last2 (a :: b :: t) (by simp)
    have hoct' : Octets (m ++ [t0, t1]) := by rw [← hm, ← hd]; exact hoct
    have hmo : Octets m := fun x hx => hoct' x (by simp [hx])
    have h0 : t0 < 256 := hoct' t0 (by simp)
    have h1 : t1 < 256 := hoct' t1 (by simp)
    have hfcs : f.isGoodFfc = true ↔ (t0 = Rfc1662.fcs16 m % 256 ∧ t1 = Rfc1662.fcs16 m / 256) := by
      unfold Frame.isGoodFfc
      rw [hcrc, hd, hm]
      exact Amshan.C03.residue m t0 t1 hmo h0 h1
    have hex : (∃ m' u0 u1, a :: b :: t = m' ++ [u0, u1] ∧ u0 = Rfc1662.fcs16 m' % 256 ∧
        u1 = Rfc1662.fcs16 m' / 256) ↔ (t0 = Rfc1662.fcs16 m % 256 ∧ t1 = Rfc1662.fcs16 m / 256) := by
      constructor
      · rintro ⟨m', u0, u1, e, e0, e1⟩
        rw [hm] at e
        obtain ⟨em, et⟩ := List.append_inj' e rfl
        simp only [List.cons.injEq, and_true] at et
        obtain ⟨et0, et1⟩ := et
        subst em et0 et1
        exact ⟨e0, e1⟩
      · rintro ⟨e0, e1⟩
        exact ⟨m, t0, t1, hm, e0, e1⟩
    unfold Intact
    simp only
    rw [hfcs, hlen, hex]
    exact And.comm

/-- every returned frame has a complete header (two address fields, control, HCS) -/
theorem returned_has_hcs (cfg : Cfg) (c : Core) (inp : List Nat) :
    ∀ f ∈ (run cfg c inp).2, f.hcs.isSome = true := by
  exact run_hcs cfg c inp

/-- a frame with a complete header decomposes into format, destination, source, control, HCS, rest -/
theorem header_shape (f : Frame) (h : FrameInv f) (hh : f.hcs.isSome = true) :
    ∃ a b dst src ctl h1 h2 rest,
      f.data = [a, b] ++ dst ++ src ++ [ctl, h1, h2] ++ rest ∧ addrWF dst = true ∧ addrWF src = true := by
  obtain ⟨_, hctl, _⟩ := h
  obtain ⟨p, hp, hl⟩ := Frame.hcs_isSome f hh
  rw [hp] at hctl
  obtain ⟨a, b, dst, src, rest, e, w1, w2, hpe⟩ := controlPos_some f.data p hctl.symm
  have hlen : rest.length ≥ 3 := by
    simp only [Frame.len, e, List.length_append, List.length_cons, List.length_nil] at hl
    omega
  match rest, hlen with
  | ctl :: h1 :: h2 :: rest', _ =>
    exact ⟨a, b, dst, src, ctl, h1, h2, rest', by rw [e]; simp, w1, w2⟩

/-- **C01 (exact fields).** For a frame of that shape every accessor returns exactly the corresponding
    octets. -/
theorem accessors_exact (f : Frame) (h : FrameInv f) (a b : Nat) (dst src : List Nat)
    (ctl h1 h2 : Nat) (rest : List Nat)
    (hd : f.data = [a, b] ++ dst ++ src ++ [ctl, h1, h2] ++ rest)
    (hdst : addrWF dst = true) (hsrc : addrWF src = true) :
    f.dest = some dst ∧ f.src = some src ∧ f.control = some ctl ∧ f.hcs = some (h1 * 256 + h2) ∧
    f.infoPos = some (2 + dst.length + src.length + 3) ∧
    f.frameLength = some ((a * 256 + b) % 2048) ∧
    f.formatType = some (a / 16 % 16) ∧
    (rest = [] → f.payload = none ∧ f.fcsField = some (h1 * 256 + h2)) ∧
    (∀ x, rest = [x] → f.payload = some [] ∧ f.fcsField = some (h2 * 256 + x)) ∧
    (∀ info f1 f2, rest = info ++ [f1, f2] → f.payload = some info ∧ f.fcsField = some (f1 * 256 + f2)) := by
  obtain ⟨hcrc, hctl, hoct⟩ := h
  have hp : f.ctlPos = some (2 + dst.length + src.length) := by
    rw [hctl, hd, List.append_assoc _ _ rest]
    exact controlPos_of_shape a b dst src _ hdst hsrc
  have hmem : ∀ x, x ∈ f.data → x < 256 := hoct
  have hb : b < 256 := hmem b (by rw [hd]; simp)
  have hh2 : h2 < 256 := hmem h2 (by rw [hd]; simp)
  have hpre : ([a, b] ++ dst ++ src).length = 2 + dst.length + src.length := by
    simp only [List.length_append, List.length_cons, List.length_nil]
  have hd' : f.data = ([a, b] ++ dst ++ src) ++ ctl :: h1 :: h2 :: rest := by rw [hd]; simp
  have hff : f.frameFormat = some (a * 256 + b) := by
    rw [Frame.frameFormat_of f a b (dst ++ src ++ [ctl, h1, h2] ++ rest) (by rw [hd]; simp),
      shl8_or a b hb]
  refine ⟨?_, ?_, ?_, ?_, ?_, ?_, ?_, ?_, ?_, ?_⟩
  · unfold Frame.dest
    rw [hd, List.append_assoc _ _ rest, List.append_assoc _ src]
    exact destAddr_of_shape a b dst _ hdst
  · unfold Frame.src
    rw [hd, List.append_assoc _ _ rest]
    exact srcAddr_of_shape a b dst src _ hdst hsrc
  · exact Frame.control_of f _ _ ctl _ hp hd' hpre
  · rw [Frame.hcs_of f _ _ ctl h1 h2 rest hp hd' hpre, shl8_or h1 h2 hh2]
  · simp only [Frame.infoPos, hp, Option.map_some]
  · simp only [Frame.frameLength, hff, Option.map_some, and_7ff]
  · simp only [Frame.formatType, hff, Option.map_some, fmt_type a b hb]
  · intro hr
    subst hr
    have hlen : f.len = 2 + dst.length + src.length + 3 := by
      simp only [Frame.len, hd, List.length_append, List.length_cons, List.length_nil]
    refine ⟨Frame.payload_none_of f _ hp (by omega), ?_⟩
    rw [Frame.fcsField_of f _ ([a, b] ++ dst ++ src ++ [ctl]) h1 h2 hp (by rw [hd]; simp)
      (by simp only [List.length_append, List.length_cons, List.length_nil]; omega),
      shl8_or h1 h2 hh2]
  · intro x hr
    subst hr
    have hx : x < 256 := hmem x (by rw [hd]; simp)
    have hlen : f.len = 2 + dst.length + src.length + 4 := by
      simp only [Frame.len, hd, List.length_append, List.length_cons, List.length_nil]
    refine ⟨Frame.payload_nil_of f _ hp hlen, ?_⟩
    rw [Frame.fcsField_of f _ ([a, b] ++ dst ++ src ++ [ctl, h1]) h2 x hp (by rw [hd]; simp)
      (by simp only [List.length_append, List.length_cons, List.length_nil]; omega),
      shl8_or h2 x hx]
  · intro info f1 f2 hr
    subst hr
    have hf2 : f2 < 256 := hmem f2 (by rw [hd]; simp)
    refine ⟨Frame.payload_of f _ ([a, b] ++ dst ++ src ++ [ctl, h1, h2]) info f1 f2 hp
      (by rw [hd]; simp) (by simp only [List.length_append, List.length_cons, List.length_nil]), ?_⟩
    rw [Frame.fcsField_of f _ ([a, b] ++ dst ++ src ++ [ctl, h1, h2] ++ info) f1 f2 hp
      (by rw [hd]; simp)
      (by simp only [List.length_append, List.length_cons, List.length_nil]; omega),
      shl8_or f1 f2 hf2]

/-- non-vacuity: a concrete valid frame meets the invariant and is intact -/
example : (Frame.empty.append 0xA0).len = 1 := by decide

end Amshan.C01
