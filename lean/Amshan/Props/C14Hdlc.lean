import Amshan.Lemmas.HdlcTotal
/-
  C14 (HDLC part) — read() never raises and every returned frame answers its accessors without
  raising.  `Model/HdlcExc.lean` re-states the reader with partial primitives (`pyIndex`,
  `pyLastViaSlice`, `assert`/attribute access on None) that DO fail on some inputs; the theorems
  show every call site is guarded: the Except-valued functions return `.ok` of the pure model.
-/
namespace Amshan.C14
open Amshan.Gen Amshan.Hdlc

/-- the primitives are genuinely partial -/
example : pyIndex [1, 2] 2 = .error .indexError := by decide
example : pyLastViaSlice [] = .error .indexError := by decide

theorem frameFormatE_ok (f : Frame) : f.frameFormatE = .ok f.frameFormat :=
  Amshan.Hdlc.Frame.frameFormatE_ok f

theorem getAddressE_ok (d : List Nat) (pos : Nat) : getAddressE d pos = .ok (getAddress d pos) :=
  Amshan.Hdlc.getAddressE_ok d pos

theorem controlE_ok (f : Frame) : f.controlE = .ok f.control :=
  Amshan.Hdlc.Frame.controlE_ok f

theorem hcsE_ok (f : Frame) : f.hcsE = .ok f.hcs :=
  Amshan.Hdlc.Frame.hcsE_ok f

/-- needs the cached control position to be a real position (≥ 2), which `FrameInv` gives -/
theorem fcsFieldE_ok (f : Frame) (h : FrameInv f) : f.fcsFieldE = .ok f.fcsField :=
  Amshan.Hdlc.Frame.fcsFieldE_ok f h

theorem isValidE_ok (f : Frame) : f.isValidE = .ok f.isValid :=
  Amshan.Hdlc.Frame.isValidE_ok f

theorem readNextE_ok (cfg : Cfg) (c : Core) (x : Nat) : readNextE cfg c x = .ok (readNext cfg c x) :=
  Amshan.Hdlc.readNextE_ok cfg c x

/-- **C14 (HDLC reader).** For every reader state, configuration and chunk, `read()` returns
    (never raises), and what it returns is what the pure model computes. -/
theorem readE_ok (cfg : Cfg) (r : Reader) (chunk : List Nat) :
    readE cfg r chunk = .ok (read cfg r chunk) :=
  Amshan.Hdlc.readE_ok cfg r chunk

end Amshan.C14
