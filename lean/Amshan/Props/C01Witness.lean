import Amshan.Props.C01
import Amshan.Props.C01Framing
/-
  C01 — non-vacuity witnesses: every hypothesis-carrying theorem of Props/C01*.lean is instantiated
  on a REAL frame (tests/test_hdlc.py FRAME_WITH_FLAG_SEQUENCE_CHARACTER_IN_INFO: a Kaifa list-1 push,
  39 octets, one-octet destination 01, two-octet source 02 01, control 10, HCS 5A 87, a flag octet
  7E inside the information field, FCS EA 5E), on a bit-flipped copy and on a copy with a wrong length
  field.  Only `example`s (no obligations are added).
-/
namespace Amshan.C01.Witness
set_option linter.defProp false
open Amshan.Gen Amshan.Hdlc Amshan.HdlcSpec

/-- information field of the real frame (LLC E6 E7 00, APDU 0F 40000000, date-time, list 02 01 06 0000157E) -/
def info : List Nat :=
  [0xE6, 0xE7, 0x00, 0x0F, 0x40, 0x00, 0x00, 0x00, 0x09, 0x0C, 0x07, 0xE4, 0x02, 0x0F, 0x06, 0x01, 0x19,
   0x22, 0xFF, 0x80, 0x00, 0x00, 0x02, 0x01, 0x06, 0x00, 0x00, 0x15, 0x7E]

/-- the 39 octets between the flags -/
def octets : List Nat := [0xA0, 0x27, 0x01, 0x02, 0x01, 0x10, 0x5A, 0x87] ++ info ++ [0xEA, 0x5E]

/-- noise, opening flag, frame, closing flag -/
def stream : List Nat := [0xC3, 0x11] ++ [0x7E] ++ octets ++ [0x7E]

/-- stuffing off (a flag in the information field is data), abort detection on -/
def cfg : Cfg := ⟨false, true⟩

/-- the frame object the reader builds from a list of octets -/
def frameOf (bs : List Nat) : Frame := bs.foldl Frame.append Frame.empty

def good : Frame := frameOf octets
/-- one bit flipped in the information field (… 15 7E → … 14 7E) -/
def flipped : Frame := frameOf (octets.set 35 0x14)
/-- length field 0x28 instead of 0x27, FCS recomputed so that ONLY the length is wrong -/
def wrongLen : Frame :=
  frameOf ([0xA0, 0x28, 0x01, 0x02, 0x01, 0x10] ++ fcsLE [0xA0, 0x28, 0x01, 0x02, 0x01, 0x10] ++ info ++
    fcsLE ([0xA0, 0x28, 0x01, 0x02, 0x01, 0x10] ++ fcsLE [0xA0, 0x28, 0x01, 0x02, 0x01, 0x10] ++ info))

/-! ### `run_frames_inv` : hypotheses `CoreInv c`, `Octets inp` -/

/-- from a new reader, on the real stream: the hypotheses hold, exactly the real frame comes out and it
    satisfies the invariant -/
example : CoreInv Core.init ∧ Octets stream ∧ (run cfg Core.init stream).2 = [good] ∧ FrameInv good := by
  have hrun : (run cfg Core.init stream).2 = [good] := by decide +kernel
  refine ⟨init_inv, by decide, hrun, ?_⟩
  have := (run_frames_inv cfg Core.init stream init_inv (by decide)).1 good
  rw [hrun] at this
  exact this (List.mem_singleton.2 rfl)

/-- from a state in the middle of a frame (not the initial one): the reader has eaten the noise, the
    flag and the first nine octets; `CoreInv` holds there, and the rest of the stream completes the frame -/
example : let c := (run cfg Core.init (stream.take 12)).1
    c.frame.isSome = true ∧ CoreInv c ∧ Octets (stream.drop 12) ∧ (run cfg c (stream.drop 12)).2 = [good] := by
  refine ⟨by decide +kernel, (run_frames_inv cfg Core.init (stream.take 12) init_inv (by decide)).2,
    by decide, by decide +kernel⟩

/-! ### `valid_iff_intact` : hypothesis `FrameInv f` — both directions are exercised -/

def good_inv : FrameInv good := ⟨by decide +kernel, by decide +kernel, by decide +kernel⟩
def flipped_inv : FrameInv flipped := ⟨by decide +kernel, by decide +kernel, by decide +kernel⟩
def wrongLen_inv : FrameInv wrongLen := ⟨by decide +kernel, by decide +kernel, by decide +kernel⟩

/-- the real frame: reported valid, hence intact (length field 0x27 = 39 octets, trailer EA 5E = FCS) -/
example : good.isValid = true ∧ Intact good.data :=
  ⟨by decide +kernel, (valid_iff_intact good good_inv).1 (by decide +kernel)⟩

/-- one flipped bit: the invariant still holds (the theorem applies), the frame is reported invalid,
    hence it is not intact -/
example : flipped.isValid = false ∧ ¬ Intact flipped.data := by
  have hv : flipped.isValid = false := by decide +kernel
  exact ⟨hv, fun hi => by rw [(valid_iff_intact flipped flipped_inv).2 hi] at hv; cases hv⟩

/-- good FCS but wrong length field: invalid, not intact (the conjunction is really a conjunction) -/
example : wrongLen.isGoodFfc = true ∧ wrongLen.isValid = false ∧ ¬ Intact wrongLen.data := by
  have hv : wrongLen.isValid = false := by decide +kernel
  exact ⟨by decide +kernel, hv, fun hi => by rw [(valid_iff_intact wrongLen wrongLen_inv).2 hi] at hv; cases hv⟩

/-! ### `header_shape` : hypotheses `FrameInv f`, `f.hcs.isSome` -/

example : FrameInv good ∧ good.hcs.isSome = true ∧
    ∃ a b dst src ctl h1 h2 rest,
      good.data = [a, b] ++ dst ++ src ++ [ctl, h1, h2] ++ rest ∧ addrWF dst = true ∧ addrWF src = true :=
  ⟨good_inv, by decide +kernel, header_shape good good_inv (by decide +kernel)⟩

/-! ### `accessors_exact` : hypotheses `FrameInv f`, the decomposition, two well-formed addresses -/

def good_shape : good.data = [0xA0, 0x27] ++ [0x01] ++ [0x02, 0x01] ++ [0x10, 0x5A, 0x87] ++ (info ++ [0xEA, 0x5E]) := by
  decide +kernel

/-- all hypotheses hold for the real frame, and the conclusion gives the real field values -/
example : addrWF [0x01] = true ∧ addrWF [0x02, 0x01] = true ∧
    good.dest = some [0x01] ∧ good.src = some [0x02, 0x01] ∧ good.control = some 0x10 ∧
    good.hcs = some 0x5A87 ∧ good.frameLength = some 39 ∧ good.formatType = some 10 ∧
    good.payload = some info ∧ good.fcsField = some 0xEA5E := by
  obtain ⟨h1, h2, h3, h4, _, h6, h7, _, _, h10⟩ :=
    accessors_exact good good_inv 0xA0 0x27 [0x01] [0x02, 0x01] 0x10 0x5A 0x87 (info ++ [0xEA, 0x5E])
      good_shape (by decide) (by decide)
  obtain ⟨hp, hf⟩ := h10 info 0xEA 0x5E rfl
  exact ⟨by decide, by decide, h1, h2, h3, h4, h6, h7, hp, hf⟩

/-- four-octet destination address (00 02 04 07), header-only frame: the `rest = []` branch -/
example : let f := frameOf ([0xA0, 0x0A, 0x00, 0x02, 0x04, 0x07, 0x21, 0x13] ++
      fcsLE [0xA0, 0x0A, 0x00, 0x02, 0x04, 0x07, 0x21, 0x13])
    FrameInv f ∧ f.isValid = true ∧ f.dest = some [0x00, 0x02, 0x04, 0x07] ∧ f.src = some [0x21] ∧
      f.control = some 0x13 ∧ f.payload = none := by
  intro f
  have hinv : FrameInv f := ⟨by decide +kernel, by decide +kernel, by decide +kernel⟩
  obtain ⟨h1, h2, h3, _, _, _, _, h8, _, _⟩ :=
    accessors_exact f hinv 0xA0 0x0A [0x00, 0x02, 0x04, 0x07] [0x21] 0x13
      (Rfc1662.fcs16 [0xA0, 0x0A, 0x00, 0x02, 0x04, 0x07, 0x21, 0x13] % 256)
      (Rfc1662.fcs16 [0xA0, 0x0A, 0x00, 0x02, 0x04, 0x07, 0x21, 0x13] / 256) []
      (by decide +kernel) (by decide) (by decide)
  exact ⟨hinv, by decide +kernel, h1, h2, h3, (h8 rfl).1⟩

/-! ### `returned_has_hcs`, `framing` have no hypotheses; instantiated for illustration -/

example : ∃ segs, Carve stream segs ∧ [good.data] = segs.map (decode cfg.stuffing) := by
  have h := framing cfg stream
  rwa [show (run cfg Core.init stream).2 = [good] by decide +kernel] at h

end Amshan.C01.Witness
