import Amshan.Props.C05
/-
  C05 — non-vacuity witness for `p1_clean_delivered`: a stream that starts with the TAIL of a readout
  (the reader joined mid-transmission: the last data line and the end line `!80FF` of tests/test_dlde.py
  EXAMPLE_DATA_C), followed by four well-formed readouts back to back: a short Landis+Gyr E360 readout with
  checksum, a checksum-less readout in the style of EXAMPLE_DATA_B (16-character identification), the first
  one again, and a long one (281 data lines, 8 175 octets — just under the 8 191-octet guard).  Three
  splittings: octet by octet, fixed 100-octet chunks (which never fall between two readouts), one piece.
-/
namespace Amshan.C05.Witness
set_option linter.defProp false
set_option maxRecDepth 100000
open Amshan.Gen Amshan.P1 Amshan.P1Spec

def s (x : String) : List Nat := x.toList.map Char.toNat

def tail : List Nat := s "1-0:71.7.0(010.2*A)\r\n!80FF\r\n"

def dS : ReadoutDesc :=
  { man := s "LGF", baud := 53, escs := [], ident := s "E360",
    lines := [s "", s "0-0:1.0.0(210222161900W)", s "1-0:1.8.0(00000896.020*kWh)", s "1-0:1.7.0(0000.000*kW)",
              s "1-0:32.7.0(230.1*V)", s "1-0:31.7.0(000.6*A)"],
    checksum := some false }

def dB : ReadoutDesc :=
  { man := s "XMX", baud := 53, escs := [], ident := s "LGBBFFB231314239",
    lines := [s "", s "1-3:0.2.8(42)", s "0-0:1.0.0(180924132132S)", s "1-0:1.8.1(011522.839*kWh)",
              s "0-0:96.13.1()", s "0-1:24.2.1(180924130000S)(04890.857*m3)"],
    checksum := none }

/-- 281 data lines: 8 175 octets -/
def dLong : ReadoutDesc :=
  { man := s "ELL", baud := 53, escs := s "2", ident := s "53833635_A",
    lines := List.replicate 281 (s "1-0:1.8.0(00001605.055*kWh)"), checksum := some true }

def ds : List ReadoutDesc := [dS, dB, dS, dLong]

def stream : List Nat := tail ++ ds.flatMap ReadoutDesc.encode

/-- hypothesis 1: the tail is octets and has no start character -/
def htail : Octets tail ∧ p1Start ∉ tail := by decide +kernel

/-- hypothesis 2: every readout is well formed and fits the guard -/
def hds : ∀ d ∈ ds, d.WF ∧ d.encode.length ≤ p1Guard := by decide +kernel

example : dLong.encode.length = 8175 ∧ 8191 < stream.length := by decide +kernel

/-- fixed-size chunks -/
def chunksOf (n : Nat) : Nat → List Nat → List (List Nat)
  | 0, w => [w]
  | k + 1, w => w.take n :: chunksOf n k (w.drop n)

def chunksOf_flatten (n k : Nat) (w : List Nat) : (chunksOf n k w).flatten = w := by
  induction k generalizing w with
  | zero => simp [chunksOf]
  | succ k ih => simp [chunksOf, ih, List.take_append_drop]

def bytewise_flatten (w : List Nat) : (w.map ([·])).flatten = w := by
  induction w with
  | nil => rfl
  | cons a t ih => simpa using ih

/-- **all hypotheses hold simultaneously and the conclusion is: no exception, and exactly the four
    readouts are delivered, byte-identical, in order** — for the three splittings -/
example :
    (∃ r outs, readAll Reader.init (stream.map ([·])) = .ok (r, outs) ∧ outs.flatten = ds.map expectedReadout) ∧
    (∃ r outs, readAll Reader.init (chunksOf 100 90 stream) = .ok (r, outs) ∧ outs.flatten = ds.map expectedReadout) ∧
    (∃ r outs, readAll Reader.init [stream] = .ok (r, outs) ∧ outs.flatten = ds.map expectedReadout) :=
  ⟨p1_clean_delivered tail ds _ htail hds (bytewise_flatten _),
   p1_clean_delivered tail ds _ htail hds (chunksOf_flatten 100 90 _),
   p1_clean_delivered tail ds [stream] htail hds (by simp [stream])⟩

/-- the delivered objects are the transmitted octets -/
example : (ds.map expectedReadout).map (·.bytes) = ds.map ReadoutDesc.encode := rfl

/-- the guard hypothesis is a real restriction: 282 such lines make a well-formed readout of 8 204 octets,
    which the theorem does not cover -/
example : let d : ReadoutDesc := { dLong with lines := List.replicate 282 (s "1-0:1.8.0(00001605.055*kWh)") }
    d.WF ∧ ¬ d.encode.length ≤ p1Guard := by
  decide +kernel

end Amshan.C05.Witness
