import Amshan.Lemmas.GenCodeProto
/-
  C13 (tie by translation) — `SmartMeterBaseProtocol.data_received` and the two concrete `message_received`
  (`SmartMeterMessageProtocol`, `SmartMeterMessagePayloadProtocol`), mechanically translated from the current source
  (Amshan/GeneratedCodeProto.lean, harness/pytrans.py), equal the model that the theorems of this property speak
  about (`Proto.dataReceived` with its candidate loop `Proto.trySelect`, and `Proto.received`).

  Generic like the model: a reader is an opaque object with state — `reader.read(data)` changes the reader and
  answers a list of messages: `Rd.feed` — and a message an opaque object with `is_valid` / `payload`.  `self` is the
  record `PyState` of the two attributes the method assigns (`_selected_reader : Option Rd`, `_reader_candidates :
  List Rd`); the translated method answers the record afterwards and the messages it gave to
  `self.message_received`, in order (`message_received` is abstract in the base class: the call is recorded, and
  the two implementations are translated on their own, with `self.queue.put_nowait(x)` recorded the same way).
  `for reader in self._reader_candidates:` changes the candidates in place; the translation is `GenRt.forLoopMut`,
  which answers the list with the visited candidates as they are now; `self._reader_candidates.clear()` inside that
  loop is the flag of the loop state that ends it (Python's list iterator finds the list empty) and makes the list
  `[]` afterwards.  `if self._selected_reader:` is `is not None` (readers have neither `__bool__` nor `__len__`:
  checked by the translator).  The candidates are taken to be pairwise distinct objects.

  The model's state additionally carries the INDEX of the selected candidate in the original list (the identity of
  the reader object, which `selected_is_first_valid` speaks about); the Python object has no such field.
  `State.erase` forgets it: the statement is that the translated method maps the erased state to the erased state of
  the model's step (every `PyState` is the erasure of a model state: `erase_surjective`).  That the index is the
  position of the selected reader in the candidate list is a fact about the model (`Proto.trySelect` counts), not
  about the source.
-/
namespace Amshan.C13
open Amshan.Proto Amshan.GenCode

/-- `data_received(data)` in the state `s` (seen as the Python object sees it): the object's state afterwards is
    that of the model's step, and the messages forwarded to `message_received`, in order, are exactly those whose
    queue items the model's step answers — for both protocols `k` -/
theorem gen_dataReceived (k : Kind) (s : State) (data : List Nat) :
    (protoDataReceived s.erase data).1 = (dataReceived k s data).1.erase ∧
      (protoDataReceived s.erase data).2.flatMap (received k) = (dataReceived k s data).2 := by
  rw [GenLemmas.protoDataReceived_eq k s data, GenLemmas.dataReceived_items]
  exact ⟨rfl, rfl⟩

/-- every state of the Python object is the view of a model state -/
theorem erase_surjective (ps : PyState) : ∃ s : State, s.erase = ps :=
  ⟨{ selected := ps.selected.map (fun r => (0, r)), candidates := ps.candidates }, by
    rcases ps with ⟨sel, cands⟩
    cases sel <;> rfl⟩

/-- `SmartMeterMessageProtocol.message_received(message)`: what is put on the queue -/
theorem gen_messageReceived_message (m : Msg) : (protoMessageReceived m).map Item.msg = received .message m := by
  exact GenLemmas.protoMessageReceived_eq m

/-- `SmartMeterMessagePayloadProtocol.message_received(message)`: what is put on the queue -/
theorem gen_messageReceived_payload (m : Msg) : (protoPayloadReceived m).map Item.payload = received .payload m := by
  exact GenLemmas.protoPayloadReceived_eq m

/-- the two translations composed: the queue items of one `data_received` call of the message protocol ... -/
theorem gen_dataReceived_message_queue (s : State) (data : List Nat) :
    ((protoDataReceived s.erase data).2.flatMap protoMessageReceived).map Item.msg = (dataReceived .message s data).2 := by
  rw [← (gen_dataReceived .message s data).2, List.map_flatMap]
  simp only [gen_messageReceived_message]

/-- ... and of the payload protocol -/
theorem gen_dataReceived_payload_queue (s : State) (data : List Nat) :
    ((protoDataReceived s.erase data).2.flatMap protoPayloadReceived).map Item.payload = (dataReceived .payload s data).2 := by
  rw [← (gen_dataReceived .payload s data).2, List.map_flatMap]
  simp only [gen_messageReceived_payload]

end Amshan.C13
