import Amshan.Lemmas.GenCodeAuto
/-
  C15 (tie by translation) — "no exception escapes, a dictionary or None is returned" rests on the same loop as C12:
  the theorems of this property speak about the model's `Auto.step`.  This statement re-exports, under this property,
  that `AutoDecoder.decode_message_payload` as mechanically translated from the current source
  (Amshan/GeneratedCodeAuto.lean) is that function — see Props/C12GenAuto.lean for the reading of the parameters.  A
  change of the rotation / of the try-except structure that is not provably behaviour-preserving therefore breaks an
  obligation of C15 too.
-/
namespace Amshan.C15
open Amshan.Auto Amshan.GenCode

theorem gen_decodePayload_tie {α β : Type} (decs : List (Decoder α β)) (caught : PyExc → Bool) (prev : Option Nat) (payload : α) :
    autoDecodeMessagePayload decs caught prev payload = Auto.step decs caught prev payload :=
  GenLemmas.autoDecodeMessagePayload_eq decs caught prev payload

end Amshan.C15
