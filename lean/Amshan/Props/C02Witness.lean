import Amshan.Props.C02
/-
  C02 — non-vacuity witnesses on REAL frames (tests/test_hdlc.py):
  * `fKaifa`  FRAME_WITH_FLAG_SEQUENCE_CHARACTER_IN_INFO  (A0 27 01 02 01 10 5A 87 … 15 7E EA 5E): a flag octet
              inside the information field, 1-octet destination, 2-octet source;
  * `fAidon`  FRAME_WITH_ESCAPE_CHARACTER_IN_INFO          (A0 2A 41 08 83 13 04 13 … 06 7D 02 … 1C 05): an escape
              octet inside the information field;
  * `fEmpty`  FRAME_EMPTY_INFO                              (A0 08 01 02 01 10 37 8D): header-only frame.
  The descriptors are re-encoded by the Spec encoder and compared with the octets of the test file.
-/
namespace Amshan.C02.Witness
set_option linter.defProp false
open Amshan.Gen Amshan.Hdlc Amshan.HdlcSpec

def fKaifa : FrameDesc :=
  { fmt := 10, seg := false, dst := [0x01], src := [0x02, 0x01], ctl := 0x10,
    info := [0xE6, 0xE7, 0x00, 0x0F, 0x40, 0x00, 0x00, 0x00, 0x09, 0x0C, 0x07, 0xE4, 0x02, 0x0F, 0x06, 0x01, 0x19,
             0x22, 0xFF, 0x80, 0x00, 0x00, 0x02, 0x01, 0x06, 0x00, 0x00, 0x15, 0x7E] }

def fAidon : FrameDesc :=
  { fmt := 10, seg := false, dst := [0x41], src := [0x08, 0x83], ctl := 0x13,
    info := [0xE6, 0xE7, 0x00, 0x0F, 0x40, 0x00, 0x00, 0x00, 0x00, 0x01, 0x01, 0x02, 0x03, 0x09, 0x06, 0x01, 0x00,
             0x01, 0x07, 0x00, 0xFF, 0x06, 0x00, 0x00, 0x06, 0x7D, 0x02, 0x02, 0x0F, 0x00, 0x16, 0x1B] }

def fEmpty : FrameDesc := { fmt := 10, seg := false, dst := [0x01], src := [0x02, 0x01], ctl := 0x10, info := [] }

/-- the Spec encoder reproduces the captured octets, check sequences included -/
example : fKaifa.encode = [0xA0, 0x27, 0x01, 0x02, 0x01, 0x10, 0x5A, 0x87] ++ fKaifa.info ++ [0xEA, 0x5E] ∧
    fAidon.encode = [0xA0, 0x2A, 0x41, 0x08, 0x83, 0x13, 0x04, 0x13] ++ fAidon.info ++ [0x1C, 0x05] ∧
    fEmpty.encode = [0xA0, 0x08, 0x01, 0x02, 0x01, 0x10, 0x37, 0x8D] := by
  decide +kernel

/-! ### `expected_observation` : hypothesis `d.WF` -/

example : fKaifa.WF ∧ fAidon.WF ∧ fEmpty.WF := by decide

/-- instantiated conclusion for the real Kaifa frame -/
example : (expectedFrame fKaifa).isValid = true ∧ (expectedFrame fKaifa).payload = some fKaifa.info ∧
    (expectedFrame fKaifa).dest = some [0x01] ∧ (expectedFrame fKaifa).src = some [0x02, 0x01] ∧
    (expectedFrame fKaifa).control = some 0x10 ∧ (expectedFrame fKaifa).frameLength = some 39 := by
  obtain ⟨h1, _, h3, h4, h5, h6, h7, _, _⟩ := expected_observation fKaifa (by decide)
  exact ⟨h1, h3, h4, h5, h6, h7⟩

/-- header-only frame: the payload accessor answers None -/
example : (expectedFrame fEmpty).isValid = true ∧ (expectedFrame fEmpty).payload = none := by
  obtain ⟨h1, _, h3, _⟩ := expected_observation fEmpty (by decide)
  exact ⟨h1, h3⟩

/-! ### `clean_stream_delivered` -/

/-- flag-free line noise in front of the first frame -/
def noise : List Nat := [0xC3, 0x00, 0x7D, 0x41]

/-- three frames with inter-frame fill of 1, 3 and 2 flags -/
def frames : List (FrameDesc × Nat) := [(fKaifa, 1), (fAidon, 3), (fEmpty, 2)]

/-- a splitting that cuts inside the first header, inside the information field and between the flags -/
def split (w : List Nat) : List (List Nat) :=
  let r1 := w.drop 3
  let r2 := r1.drop 4
  let r3 := r2.drop 40
  [w.take 3, r1.take 4, [], r2.take 40, r3.take 1, r3.drop 1]

def split_flatten (w : List Nat) : (split w).flatten = w := by
  simp only [split, List.flatten_cons, List.flatten_nil, List.nil_append, List.append_nil, List.take_append_drop]

/-- every octet on its own -/
def bytewise (w : List Nat) : List (List Nat) := w.map ([·])

def bytewise_flatten (w : List Nat) : (bytewise w).flatten = w := by
  induction w with
  | nil => rfl
  | cons a t ih => simpa [bytewise] using ih

def hnoise : Octets noise ∧ flag ∉ noise := by decide

/-- all four configurations: the three real frames are in the domain of each (stuffing off: no flag in
    the headers, and no escape octet directly before a flag octet or the frame end) -/
def hframes (cfg : Cfg) : ∀ p ∈ frames, p.1.WF ∧ 1 ≤ p.2 ∧ InDomain cfg.stuffing cfg.abort p.1 := by
  obtain ⟨s, a⟩ := cfg
  cases s <;> cases a <;> decide +kernel

/-- **all hypotheses of `clean_stream_delivered` hold simultaneously**, for every configuration and both
    splittings, and the conclusion is that exactly the three real frames are delivered -/
example (cfg : Cfg) :
    (readAll cfg Reader.init (split (wire cfg.stuffing noise frames 2))).2.flatten =
      [expectedFrame fKaifa, expectedFrame fAidon, expectedFrame fEmpty] ∧
    (readAll cfg Reader.init (bytewise (wire cfg.stuffing noise frames 2))).2.flatten =
      [expectedFrame fKaifa, expectedFrame fAidon, expectedFrame fEmpty] :=
  ⟨clean_stream_delivered cfg noise frames 2 _ hnoise (hframes cfg) (by decide) (split_flatten _),
   clean_stream_delivered cfg noise frames 2 _ hnoise (hframes cfg) (by decide) (bytewise_flatten _)⟩

/-- what is on the wire without stuffing is what the test file feeds (flags, captured octets) … -/
example : wire false noise frames 2 =
    noise ++ [0x7E] ++ fKaifa.encode ++ [0x7E, 0x7E, 0x7E] ++ fAidon.encode ++ [0x7E, 0x7E] ++ fEmpty.encode ++
      [0x7E, 0x7E] := by
  decide +kernel

/-- … and with stuffing the flag and the escape octet inside the information fields are escaped -/
example : onWire true fKaifa = [0xA0, 0x27, 0x01, 0x02, 0x01, 0x10, 0x5A, 0x87] ++ fKaifa.info.dropLast ++
      [0x7D, 0x5E, 0xEA, 0x5E] ∧
    (onWire true fAidon).length = fAidon.encode.length + 1 := by
  decide +kernel

/-- the domain restriction is not empty talk: a frame whose HCS contains a flag octet is outside the
    domain without stuffing (and inside with it) -/
example : ∃ d : FrameDesc, d.WF ∧ ¬ InDomain false false d ∧ InDomain true false d := by
  refine ⟨{ fmt := 10, seg := false, dst := [0x01], src := [0x7E, 0x01], ctl := 0x10, info := [] }, ?_, ?_, ?_⟩ <;>
    decide +kernel

end Amshan.C02.Witness
