/-
  Run-time support of the MECHANICALLY TRANSLATED code (Amshan/GeneratedCode*.lean, harness/pytrans.py): the two loop
  combinators that a Python `for` loop with `break` / `continue` / `return` (or an exception that leaves the loop)
  is translated to.  Hand-written, generic, and part of the meaning of the translation (like `List.foldl` for the
  loops without an early exit).

  * `Step σ ρ`: how one iteration of a loop body ends — `next s` (the end of the body, or `continue`: go on with
    the state `s`), `brk s` (`break`), `ret r` (the enclosing FUNCTION answers `r`: a `return`, or an exception
    that nothing in the function catches).
  * `forLoop l s body k`: `for x in l: body`, from the state `s`; `k` is what follows the loop (it gets the state
    with which the loop ended, by exhaustion or by `break`).
  * `forLoopMut l s body k`: the same for a loop over a list of OBJECTS that the body changes in place
    (`reader.read(data)`): an iteration also answers the new value of its item, and `k` gets the list after the
    loop (the items visited so far as they are now, then the ones not visited).
-/
namespace Amshan.GenRt

universe u v w

inductive Step (σ : Type u) (ρ : Type v) where
  | next (s : σ)
  | brk (s : σ)
  | ret (r : ρ)

def forLoop {α : Type w} {σ : Type u} {ρ : Type v} (l : List α) (s : σ) (body : σ → α → Step σ ρ) (k : σ → ρ) : ρ :=
  match l with
  | [] => k s
  | x :: xs =>
    match body s x with
    | .next s' => forLoop xs s' body k
    | .brk s' => k s'
    | .ret r => r

/-- `done`: the items already visited (as the body left them), in order -/
def forLoopMut.go {α : Type w} {σ : Type u} {ρ : Type v} (body : σ → α → α × Step σ ρ) (k : List α → σ → ρ) :
    List α → List α → σ → ρ
  | done, [], s => k done s
  | done, x :: xs, s =>
    match body s x with
    | (x', .next s') => forLoopMut.go body k (done ++ [x']) xs s'
    | (x', .brk s') => k (done ++ x' :: xs) s'
    | (_, .ret r) => r

def forLoopMut {α : Type w} {σ : Type u} {ρ : Type v} (l : List α) (s : σ) (body : σ → α → α × Step σ ρ)
    (k : List α → σ → ρ) : ρ :=
  forLoopMut.go body k [] l s

end Amshan.GenRt
