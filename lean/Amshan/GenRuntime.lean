/-
  Run-time support of the MECHANICALLY TRANSLATED code (Amshan/GeneratedCode*.lean, harness/pytrans.py): the two loop
  combinators that a Python `for` loop with `break` / `continue` / `return` (or an exception that leaves the loop)
  is translated to.  Hand-written, generic, and part of the meaning of the translation (like `List.foldl` for the
  loops without an early exit).

  * `Step σ ρ`: how one iteration of a loop body ends — `next s` (the end of the body, or `continue`: go on with
    the state `s`), `brk s` (`break`), `ret r` (the enclosing FUNCTION answers `r`: a `return`, or an exception
    that nothing in the function catches).
  * `forLoop l s body k`: `for x in l: body`, from the state `s`; `k` is what follows the loop (it gets the state
    with which the loop ended, by exhaustion or by `break`).
  * `forLoopMut l s body k`: the same for a loop over a list of OBJECTS that the body changes in place
    (`reader.read(data)`): an iteration also answers the new value of its item, and `k` gets the list after the
    loop (the items visited so far as they are now, then the ones not visited).
-/
namespace Amshan.GenRt

universe u v w

inductive Step (σ : Type u) (ρ : Type v) where
  | next (s : σ)
  | brk (s : σ)
  | ret (r : ρ)

def forLoop {α : Type w} {σ : Type u} {ρ : Type v} (l : List α) (s : σ) (body : σ → α → Step σ ρ) (k : σ → ρ) : ρ :=
  match l with
  | [] => k s
  | x :: xs =>
    match body s x with
    | .next s' => forLoop xs s' body k
    | .brk s' => k s'
    | .ret r => r

/-- `done`: the items already visited (as the body left them), in order -/
def forLoopMut.go {α : Type w} {σ : Type u} {ρ : Type v} (body : σ → α → α × Step σ ρ) (k : List α → σ → ρ) :
    List α → List α → σ → ρ
  | done, [], s => k done s
  | done, x :: xs, s =>
    match body s x with
    | (x', .next s') => forLoopMut.go body k (done ++ [x']) xs s'
    | (x', .brk s') => k (done ++ x' :: xs) s'
    | (_, .ret r) => r

def forLoopMut {α : Type w} {σ : Type u} {ρ : Type v} (l : List α) (s : σ) (body : σ → α → α × Step σ ρ)
    (k : List α → σ → ρ) : ρ :=
  forLoopMut.go body k [] l s

/-! ### byte strings: `find` and slices with bounds that may be negative

  `x.find(v)` answers an int that may be negative (-1: not found); the translation keeps such values as Lean `Int`
  (arithmetic and comparisons on them are those of `Int`), and slices with such a bound follow Python: a negative
  bound counts from the end, every bound is clamped to `0 .. len`. -/

/-- `l.find(v)` for a byte string `l` and an octet `v`: the position of the first `v`, -1 when there is none -/
def find (l : List Nat) (v : Nat) : Int :=
  if l.idxOf v < l.length then Int.ofNat (l.idxOf v) else -1

/-- `l.find(v, start)` for `start ≥ 0`: the position of the first `v` at or after `start`, -1 when there is none -/
def findFrom (l : List Nat) (v : Nat) (start : Nat) : Int :=
  if (l.drop start).idxOf v < (l.drop start).length then Int.ofNat (start + (l.drop start).idxOf v) else -1

/-- a slice bound `i` of a sequence of `n` items, as a position `0 .. n` -/
def sliceBound (n : Nat) (i : Int) : Nat :=
  if i < 0 then n - i.natAbs else min i.toNat n

/-- `l[i:]` -/
def sliceFrom {α : Type w} (l : List α) (i : Int) : List α :=
  l.drop (sliceBound l.length i)

/-- `l[i:j]` -/
def slice {α : Type w} (l : List α) (i j : Int) : List α :=
  (l.take (sliceBound l.length j)).drop (sliceBound l.length i)

/-! what Python answers on small inputs (checked by the kernel) -/
example : find [1, 126, 3, 126] 126 = 1 := by decide
example : find [1, 2] 126 = -1 := by decide
example : find [] 0 = -1 := by decide
example : findFrom [10, 1, 10, 2] 10 1 = 2 := by decide
example : findFrom [10, 1, 10, 2] 10 0 = 0 := by decide
example : findFrom [10, 1] 10 1 = -1 := by decide
example : findFrom [10, 1] 10 5 = -1 := by decide
example : sliceFrom [1, 2, 3, 4] (-1) = [4] := by decide
example : sliceFrom [1, 2, 3, 4] (-9) = [1, 2, 3, 4] := by decide
example : sliceFrom [1, 2, 3, 4] 9 = [] := by decide
example : sliceFrom [1, 2, 3, 4] 2 = [3, 4] := by decide
example : slice [1, 2, 3, 4] 1 3 = [2, 3] := by decide
example : slice [1, 2, 3, 4] (-3) (-1) = [2, 3] := by decide
example : slice [1, 2, 3, 4] 2 0 = [] := by decide
example : slice [1, 2, 3, 4] 0 9 = [1, 2, 3, 4] := by decide
example : slice [1, 2, 3, 4] (-9) 2 = [1, 2] := by decide

/-- `bs.decode("ascii")` for a byte string of 7-bit octets: the code points are the octets.  (Python raises
    UnicodeDecodeError otherwise; the translation is total, the theorems state the guard `isascii()`.) -/
def decodeAscii (bs : List Nat) : List Nat := bs

theorem find_of_mem {l : List Nat} {v : Nat} (h : v ∈ l) : find l v = Int.ofNat (l.idxOf v) := by
  unfold find; rw [if_pos (List.idxOf_lt_length_of_mem h)]

theorem find_of_not_mem {l : List Nat} {v : Nat} (h : v ∉ l) : find l v = -1 := by
  unfold find
  have : l.idxOf v = l.length := List.idxOf_eq_length h
  rw [if_neg (by omega)]

/-- what `find` answers, in terms of the longest prefix without `v` -/
theorem find_eq_takeWhile (l : List Nat) (v : Nat) :
    find l v = if v ∈ l then Int.ofNat (l.takeWhile (fun x => x != v)).length else -1 := by
  split
  · rename_i h
    rw [find_of_mem h]
    congr 1
    induction l with
    | nil => simp at h
    | cons a t ih =>
      by_cases hav : a = v
      · subst hav; simp
      · have hva : v ≠ a := fun e => hav e.symm
        have ht : v ∈ t := by simpa [hva] using h
        have hb : (a == v) = false := by simp [hav]
        simp [List.idxOf_cons, hav, hb, ih ht]
  · rename_i h; exact find_of_not_mem h

theorem find_ge (l : List Nat) (v : Nat) : -1 ≤ find l v := by
  unfold find; split <;> simp <;> omega

theorem find_lt_length (l : List Nat) (v : Nat) : find l v < Int.ofNat l.length := by
  unfold find; split
  · simp; omega
  · simp; omega

theorem drop_takeWhile_length {α : Type w} (p : α → Bool) (l : List α) :
    l.drop (l.takeWhile p).length = l.dropWhile p := by
  induction l with
  | nil => rfl
  | cons a t ih =>
    by_cases h : p a <;> simp [h, ih]

theorem dropWhile_ne_eq_nil {l : List Nat} {v : Nat} (h : v ∉ l) : l.dropWhile (fun x => x != v) = [] := by
  induction l with
  | nil => rfl
  | cons a t ih =>
    have hav : a ≠ v := fun e => h (by simp [e])
    have ht : v ∉ t := fun m => h (by simp [m])
    simp [hav, ih ht]

/-- the suffix from the first `v` on (nothing when there is none), as `trim_buffer_to_flag_or_end` computes it with
    `find`: whichever of the tests `p == -1`, `p < 0`, `p > 0`, `p >= 0` the source uses -/
theorem dropWhile_ne_eq_find (l : List Nat) (v : Nat) :
    l.dropWhile (fun x => x != v) = if find l v < 0 then [] else l.drop (find l v).toNat := by
  rw [find_eq_takeWhile]
  by_cases h : v ∈ l
  · simp only [h, if_true]
    rw [if_neg (by simp)]
    simp [drop_takeWhile_length]
  · simp [h, dropWhile_ne_eq_nil h]

theorem idxOf_eq_length_takeWhile (l : List Nat) (v : Nat) : l.idxOf v = (l.takeWhile (fun x => x != v)).length := by
  induction l with
  | nil => rfl
  | cons a t ih =>
    by_cases hav : a = v
    · subst hav; simp
    · have hb : (a == v) = false := by simp [hav]
      simp [List.idxOf_cons, hav, hb, ih]

/-- what `find` with a start position answers, in terms of the longest prefix without `v` of the octets from there on -/
theorem findFrom_eq_takeWhile (l : List Nat) (v start : Nat) :
    findFrom l v start =
      if v ∈ l.drop start then Int.ofNat (start + ((l.drop start).takeWhile (fun x => x != v)).length) else -1 := by
  unfold findFrom
  by_cases h : v ∈ l.drop start
  · rw [if_pos (List.idxOf_lt_length_of_mem h), if_pos h, idxOf_eq_length_takeWhile]
  · rw [if_neg h, if_neg (by rw [List.idxOf_eq_length h]; omega)]

/-- a slice between two positions that are not negative -/
theorem slice_ofNat {α : Type w} (l : List α) (i j : Nat) : slice l (Int.ofNat i) (Int.ofNat j) = (l.take j).drop i := by
  unfold slice sliceBound
  have hi0 : ¬ Int.ofNat i < 0 := by simp
  have hj0 : ¬ Int.ofNat j < 0 := by simp
  rw [if_neg hi0, if_neg hj0]
  simp only [Int.ofNat_eq_natCast, Int.toNat_natCast]
  have ht : l.take (min j l.length) = l.take j := (List.take_eq_take_min).symm
  rw [ht]
  by_cases hi : i ≤ l.length
  · rw [Nat.min_eq_left hi]
  · rw [Nat.min_eq_right (by omega)]
    rw [List.drop_eq_nil_of_le (by simp; omega), List.drop_eq_nil_of_le (by simp; omega)]

theorem toNat_ofNat (n : Nat) : (Int.ofNat n).toNat = n := rfl

theorem take_length_succ_append {α : Type w} (a : List α) (x : α) (r : List α) : (a ++ x :: r).take (a.length + 1) = a ++ [x] := by
  induction a with
  | nil => simp
  | cons y t ih => simp [ih]

theorem drop_length_succ_append {α : Type w} (a : List α) (x : α) (r : List α) : (a ++ x :: r).drop (a.length + 1) = r := by
  induction a with
  | nil => simp
  | cons y t ih => simp [ih]

theorem sliceFrom_of_nonneg {α : Type w} (l : List α) (i : Int) (h : 0 ≤ i) : sliceFrom l i = l.drop i.toNat := by
  unfold sliceFrom sliceBound
  rw [if_neg (by omega)]
  by_cases hle : i.toNat ≤ l.length
  · rw [Nat.min_eq_left hle]
  · rw [Nat.min_eq_right (by omega), List.drop_length, List.drop_eq_nil_of_le (by omega)]

end Amshan.GenRt
